#!/bin/sh
# offline setup: nothing to fetch; create work dirs (all build output lives under /verif/.work)
set -e
cd "$(dirname "$0")"
mkdir -p .work evidence replays
exit 0
