// ---- shared prelude of every extracted Kani unit (hand-written, trusted) -------------------
// TRUSTED CONTRACT R2 (deku runtime): a big-endian read of N bits at bit position p returns the
// integer formed by input bits p..p+N, most significant first, or Err(Incomplete) when fewer
// than N bits remain; nothing else about the reader is assumed.  The window is 128 bits, which
// covers every Mode S frame (112 bits) and every field reader.
#![allow(dead_code, unused_variables, unused_mut, unused_imports, non_snake_case, unused_parens, clippy::all)]

#[derive(Debug, Clone, Copy, PartialEq, Eq)]
#[cfg_attr(kani, derive(kani::Arbitrary))]
pub enum DekuError {
    Incomplete,
    Parse,
    InvalidParam,
    Assertion,
    AssertionNoStr,
    IdVariantNotFound,
    Io,
}

pub struct BitReader {
    pub data: u128,
    pub bits_read: usize,
    pub len_bits: usize,
}

impl BitReader {
    pub fn new(bytes: [u8; 16], start_bit: usize, len_bits: usize) -> Self {
        BitReader { data: u128::from_be_bytes(bytes), bits_read: start_bit, len_bits }
    }
    /// symbolic reader: any 128 bits, positioned anywhere in the first 64 bits
    pub fn any() -> Self {
        let bytes: [u8; 16] = kani::any();
        let start: u8 = kani::any();
        kani::assume(start < 64);
        let len: u8 = kani::any();
        kani::assume(len <= 128 && len % 8 == 0); // inputs are whole bytes
        BitReader::new(bytes, start as usize, len as usize)
    }
    #[inline]
    pub fn rd(&mut self, n: u32) -> Result<u64, DekuError> {
        if n == 0 || n > 64 {
            return Err(DekuError::InvalidParam);
        }
        let n = n as usize;
        if self.bits_read + n > self.len_bits || self.bits_read + n > 128 {
            return Err(DekuError::Incomplete);
        }
        let v = (self.data >> (128 - self.bits_read - n)) & ((1u128 << n) - 1);
        self.bits_read += n;
        Ok(v as u64)
    }
    pub fn rd_u8(&mut self, n: u32) -> Result<u8, DekuError> {
        if n > 8 { return Err(DekuError::InvalidParam); }
        Ok(self.rd(n)? as u8)
    }
    pub fn rd_u16(&mut self, n: u32) -> Result<u16, DekuError> {
        if n > 16 { return Err(DekuError::InvalidParam); }
        Ok(self.rd(n)? as u16)
    }
    pub fn rd_u32(&mut self, n: u32) -> Result<u32, DekuError> {
        if n > 32 { return Err(DekuError::InvalidParam); }
        Ok(self.rd(n)? as u32)
    }
    pub fn rd_u64(&mut self, n: u32) -> Result<u64, DekuError> {
        self.rd(n)
    }
    pub fn rd_bool(&mut self, n: u32) -> Result<bool, DekuError> {
        // deku: bool is read as u8 with the same context; 0 / 1 accepted, anything else Parse
        match self.rd_u8(n)? {
            1 => Ok(true),
            0 => Ok(false),
            _ => Err(DekuError::Parse),
        }
    }
    pub fn rd_u32_le(&mut self) -> Result<u32, DekuError> {
        let v = self.rd(32)? as u32;
        Ok(v.swap_bytes())
    }
}

// ---- helpers for harnesses ---------------------------------------------------------------------
impl BitReader {
    /// an independent reader at the same position over the same bits (the harness's view of the input)
    pub fn fork(&self) -> BitReader { BitReader { data: self.data, bits_read: self.bits_read, len_bits: self.len_bits } }
}
/// two's complement value of a sign bit followed by `bits` magnitude bits
pub fn twos(sign: u64, value: u64, bits: u32) -> i64 { if sign == 1 { value as i64 - (1i64 << bits) } else { value as i64 } }
/// read n bits from the harness's view; when the input is too short the function under contract
/// must have reported an error as well
macro_rules! field {
    ($p:expr, $res:expr, $n:expr) => {
        match $p.rd($n) { Ok(v) => v, Err(_) => { assert!($res.is_err()); return; } }
    };
}
