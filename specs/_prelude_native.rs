// ---- native replay prelude: runs the REAL deku reader over the counterexample's bits ---------
pub fn conv_err(e: deku::DekuError) -> DekuError {
    match e {
        deku::DekuError::Incomplete(_) => DekuError::Incomplete,
        deku::DekuError::Parse(_) => DekuError::Parse,
        deku::DekuError::InvalidParam(_) => DekuError::InvalidParam,
        deku::DekuError::Assertion(_) => DekuError::Assertion,
        deku::DekuError::AssertionNoStr => DekuError::AssertionNoStr,
        deku::DekuError::IdVariantNotFound => DekuError::IdVariantNotFound,
        deku::DekuError::Io(_) => DekuError::Io,
        _ => DekuError::Io,
    }
}
pub type RealReader<'a> = deku::reader::Reader<'a, deku::no_std_io::Cursor<Vec<u8>>>;
/// call `f` on a real deku Reader positioned like the stub reader; copy the position back
pub fn real_call<T>(
    r: &mut BitReader,
    f: impl FnOnce(&mut deku::reader::Reader<deku::no_std_io::Cursor<Vec<u8>>>) -> Result<T, deku::DekuError>,
) -> Result<T, DekuError> {
    let nbytes = (r.len_bits + 7) / 8;
    let bytes = r.data.to_be_bytes()[..nbytes.min(16)].to_vec();
    let mut cur = deku::no_std_io::Cursor::new(bytes);
    let mut rd = deku::reader::Reader::new(&mut cur);
    if r.bits_read > 0 {
        rd.skip_bits(r.bits_read).map_err(conv_err)?;
    }
    let res = f(&mut rd);
    r.bits_read = rd.bits_read;
    res.map_err(conv_err)
}
