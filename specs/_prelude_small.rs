// ---- R7b stand-ins for std::vec::Vec<u8> / String holding at most 8 elements -------------------
// TRUSTED: same observable behaviour as the std types for the operations used by the code under
// contract (new/push/iter/into_iter in insertion order; collect::<String>() of ASCII chars keeps
// order and content).  CBMC cannot carry the real allocator-backed types through these loops
// (measured: > 10 min for the 8-character call sign), the array-backed ones take seconds.
#[derive(Clone, Debug)]
pub struct Vec8 { pub b: [u8; 8], pub n: usize }
impl Vec8 {
    pub fn new() -> Self { Vec8 { b: [0; 8], n: 0 } }
    pub fn push(&mut self, x: u8) { assert!(self.n < 8); self.b[self.n] = x; self.n += 1; }
    pub fn iter(&self) -> core::slice::Iter<'_, u8> { self.b[..self.n].iter() }
}
pub struct Vec8Iter { v: Vec8, i: usize }
impl Iterator for Vec8Iter { type Item = u8; fn next(&mut self) -> Option<u8> { if self.i < self.v.n { self.i += 1; Some(self.v.b[self.i - 1]) } else { None } } }
impl IntoIterator for Vec8 { type Item = u8; type IntoIter = Vec8Iter; fn into_iter(self) -> Vec8Iter { Vec8Iter { v: self, i: 0 } } }
#[derive(Clone, Debug)]
pub struct Str8 { pub b: [u8; 8], pub n: usize }
impl core::iter::FromIterator<char> for Str8 {
    fn from_iter<I: IntoIterator<Item = char>>(it: I) -> Self {
        let mut s = Str8 { b: [0; 8], n: 0 };
        for c in it { assert!(s.n < 8 && (c as u32) < 128); s.b[s.n] = c as u8; s.n += 1; }
        s
    }
}
impl Str8 { pub fn as_bytes(&self) -> &[u8] { &self.b[..self.n] } pub fn len(&self) -> usize { self.n } }
