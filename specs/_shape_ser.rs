// ---- harness-side serde Serializer that is the CONTRACT of "serialises to one well-formed JSON object" ----
// It accepts exactly the event streams serde_json turns into one JSON value and records their shape:
// top level must be a map / struct; keys at every map level are pairwise distinct (&'static str keys are
// compared by content); every f32 / f64 is finite; the values emitted for the top-level keys `df` and
// `icao24` are captured (as short byte strings).  Anything serde_json would reject, or that breaks the
// shape, makes `serialize` return Err or sets a flag the harness asserts on.
use serde::ser::{self, Serialize};
pub const KCAP: usize = 40;     // keys per map level
pub const SCAP: usize = 12;     // captured string bytes
#[derive(Debug)]
pub struct ShapeErr;
impl core::fmt::Display for ShapeErr { fn fmt(&self, _f: &mut core::fmt::Formatter<'_>) -> core::fmt::Result { Ok(()) } }
impl std::error::Error for ShapeErr {}
impl ser::Error for ShapeErr { fn custom<T: core::fmt::Display>(_msg: T) -> Self { ShapeErr } }
#[derive(Clone, Copy)]
pub struct Cap { pub b: [u8; SCAP], pub n: usize, pub set: bool }
impl Cap { pub const fn new() -> Cap { Cap { b: [0; SCAP], n: 0, set: false } } }
pub struct Shape { pub top_is_map: bool, pub dup_key: bool, pub non_finite: bool, pub overflow: bool, pub df: Cap, pub icao24: Cap, pub top_keys: usize }
impl Shape { pub fn new() -> Shape { Shape { top_is_map: false, dup_key: false, non_finite: false, overflow: false, df: Cap::new(), icao24: Cap::new(), top_keys: 0 } } }
fn str_eq(a: &str, b: &str) -> bool { let (x, y) = (a.as_bytes(), b.as_bytes()); if x.len() != y.len() { return false; } let mut i = 0; while i < x.len() { if x[i] != y[i] { return false; } i += 1; } true }
/// value serializer at nesting depth `depth` (0 = the whole message); `cap` = where a string value is captured
pub struct Val<'a> { pub sh: &'a mut Shape, pub depth: u8, pub cap: u8 }   // cap: 0 none, 1 df, 2 icao24
pub const KLEN: usize = 28;
pub struct MapS<'a> { sh: &'a mut Shape, depth: u8, keys: [[u8; KLEN]; KCAP], klen: [usize; KCAP], nk: usize, pending: u8 }
impl<'a> MapS<'a> {
    fn key(&mut self, k: &str) {
        let kb = k.as_bytes();
        if kb.len() > KLEN { self.sh.overflow = true; return; }
        let mut i = 0;
        while i < self.nk {
            if self.klen[i] == kb.len() { let mut same = true; let mut j = 0; while j < kb.len() { if self.keys[i][j] != kb[j] { same = false; } j += 1; } if same { self.sh.dup_key = true; } }
            i += 1;
        }
        if self.nk < KCAP { let mut j = 0; while j < kb.len() { self.keys[self.nk][j] = kb[j]; j += 1; } self.klen[self.nk] = kb.len(); self.nk += 1; } else { self.sh.overflow = true; }
        if self.depth == 0 { self.sh.top_keys += 1; }
        self.pending = if self.depth == 0 && str_eq(k, "df") { 1 } else if self.depth == 0 && str_eq(k, "icao24") { 2 } else { 0 };
    }
    fn val<T: ?Sized + Serialize>(&mut self, v: &T) -> Result<(), ShapeErr> { let c = self.pending; self.pending = 0; v.serialize(Val { sh: &mut *self.sh, depth: self.depth + 1, cap: c }) }
}
impl<'a> ser::SerializeMap for MapS<'a> {
    type Ok = (); type Error = ShapeErr;
    fn serialize_key<T: ?Sized + Serialize>(&mut self, k: &T) -> Result<(), ShapeErr> { k.serialize(KeyS { m: self }) }
    fn serialize_value<T: ?Sized + Serialize>(&mut self, v: &T) -> Result<(), ShapeErr> { self.val(v) }
    fn end(self) -> Result<(), ShapeErr> { Ok(()) }
}
impl<'a> ser::SerializeStruct for MapS<'a> {
    type Ok = (); type Error = ShapeErr;
    fn serialize_field<T: ?Sized + Serialize>(&mut self, k: &'static str, v: &T) -> Result<(), ShapeErr> { self.key(k); self.val(v) }
    fn end(self) -> Result<(), ShapeErr> { Ok(()) }
}
impl<'a> ser::SerializeStructVariant for MapS<'a> {
    type Ok = (); type Error = ShapeErr;
    fn serialize_field<T: ?Sized + Serialize>(&mut self, k: &'static str, v: &T) -> Result<(), ShapeErr> { self.key(k); self.val(v) }
    fn end(self) -> Result<(), ShapeErr> { Ok(()) }
}
/// map keys must be strings (serde_json rejects anything else)
pub struct KeyS<'m, 'a> { m: &'m mut MapS<'a> }
macro_rules! key_reject { ($($f:ident($t:ty)),*) => { $(fn $f(self, _v: $t) -> Result<(), ShapeErr> { Err(ShapeErr) })* } }
impl<'m, 'a> ser::Serializer for KeyS<'m, 'a> {
    type Ok = (); type Error = ShapeErr;
    type SerializeSeq = ser::Impossible<(), ShapeErr>; type SerializeTuple = ser::Impossible<(), ShapeErr>; type SerializeTupleStruct = ser::Impossible<(), ShapeErr>;
    type SerializeTupleVariant = ser::Impossible<(), ShapeErr>; type SerializeMap = ser::Impossible<(), ShapeErr>; type SerializeStruct = ser::Impossible<(), ShapeErr>; type SerializeStructVariant = ser::Impossible<(), ShapeErr>;
    fn serialize_str(self, v: &str) -> Result<(), ShapeErr> {
        self.m.key(v); Ok(())
    }
    key_reject!(serialize_bool(bool), serialize_i8(i8), serialize_i16(i16), serialize_i32(i32), serialize_i64(i64), serialize_u8(u8), serialize_u16(u16), serialize_u32(u32), serialize_u64(u64), serialize_f32(f32), serialize_f64(f64), serialize_char(char), serialize_bytes(&[u8]));
    fn serialize_none(self) -> Result<(), ShapeErr> { Err(ShapeErr) }
    fn serialize_some<T: ?Sized + Serialize>(self, _v: &T) -> Result<(), ShapeErr> { Err(ShapeErr) }
    fn serialize_unit(self) -> Result<(), ShapeErr> { Err(ShapeErr) }
    fn serialize_unit_struct(self, _n: &'static str) -> Result<(), ShapeErr> { Err(ShapeErr) }
    fn serialize_unit_variant(self, _n: &'static str, _i: u32, v: &'static str) -> Result<(), ShapeErr> { self.m.key(v); Ok(()) }
    fn serialize_newtype_struct<T: ?Sized + Serialize>(self, _n: &'static str, v: &T) -> Result<(), ShapeErr> { v.serialize(self) }
    fn serialize_newtype_variant<T: ?Sized + Serialize>(self, _n: &'static str, _i: u32, _v: &'static str, _x: &T) -> Result<(), ShapeErr> { Err(ShapeErr) }
    fn serialize_seq(self, _l: Option<usize>) -> Result<Self::SerializeSeq, ShapeErr> { Err(ShapeErr) }
    fn serialize_tuple(self, _l: usize) -> Result<Self::SerializeTuple, ShapeErr> { Err(ShapeErr) }
    fn serialize_tuple_struct(self, _n: &'static str, _l: usize) -> Result<Self::SerializeTupleStruct, ShapeErr> { Err(ShapeErr) }
    fn serialize_tuple_variant(self, _n: &'static str, _i: u32, _v: &'static str, _l: usize) -> Result<Self::SerializeTupleVariant, ShapeErr> { Err(ShapeErr) }
    fn serialize_map(self, _l: Option<usize>) -> Result<Self::SerializeMap, ShapeErr> { Err(ShapeErr) }
    fn serialize_struct(self, _n: &'static str, _l: usize) -> Result<Self::SerializeStruct, ShapeErr> { Err(ShapeErr) }
    fn serialize_struct_variant(self, _n: &'static str, _i: u32, _v: &'static str, _l: usize) -> Result<Self::SerializeStructVariant, ShapeErr> { Err(ShapeErr) }
}
pub struct SeqS<'a> { sh: &'a mut Shape, depth: u8 }
impl<'a> ser::SerializeSeq for SeqS<'a> { type Ok = (); type Error = ShapeErr;
    fn serialize_element<T: ?Sized + Serialize>(&mut self, v: &T) -> Result<(), ShapeErr> { v.serialize(Val { sh: &mut *self.sh, depth: self.depth + 1, cap: 0 }) }
    fn end(self) -> Result<(), ShapeErr> { Ok(()) } }
impl<'a> ser::SerializeTuple for SeqS<'a> { type Ok = (); type Error = ShapeErr;
    fn serialize_element<T: ?Sized + Serialize>(&mut self, v: &T) -> Result<(), ShapeErr> { v.serialize(Val { sh: &mut *self.sh, depth: self.depth + 1, cap: 0 }) }
    fn end(self) -> Result<(), ShapeErr> { Ok(()) } }
impl<'a> ser::SerializeTupleStruct for SeqS<'a> { type Ok = (); type Error = ShapeErr;
    fn serialize_field<T: ?Sized + Serialize>(&mut self, v: &T) -> Result<(), ShapeErr> { v.serialize(Val { sh: &mut *self.sh, depth: self.depth + 1, cap: 0 }) }
    fn end(self) -> Result<(), ShapeErr> { Ok(()) } }
impl<'a> ser::SerializeTupleVariant for SeqS<'a> { type Ok = (); type Error = ShapeErr;
    fn serialize_field<T: ?Sized + Serialize>(&mut self, v: &T) -> Result<(), ShapeErr> { v.serialize(Val { sh: &mut *self.sh, depth: self.depth + 1, cap: 0 }) }
    fn end(self) -> Result<(), ShapeErr> { Ok(()) } }
impl<'a> Val<'a> {
    fn scalar(self) -> Result<(), ShapeErr> { if self.depth == 0 { Err(ShapeErr) } else { Ok(()) } }   // a message must be an object
    fn capture(&mut self, v: &str) {
        let c = if self.cap == 1 { &mut self.sh.df } else if self.cap == 2 { &mut self.sh.icao24 } else { return };
        let b = v.as_bytes(); c.set = true; c.n = b.len();
        let mut i = 0; while i < b.len() && i < SCAP { c.b[i] = b[i]; i += 1; }
    }
    fn map(self) -> Result<MapS<'a>, ShapeErr> { if self.depth == 0 { self.sh.top_is_map = true; } Ok(MapS { sh: self.sh, depth: self.depth, keys: [[0; KLEN]; KCAP], klen: [0; KCAP], nk: 0, pending: 0 }) }
}
impl<'a> ser::Serializer for Val<'a> {
    type Ok = (); type Error = ShapeErr;
    type SerializeSeq = SeqS<'a>; type SerializeTuple = SeqS<'a>; type SerializeTupleStruct = SeqS<'a>; type SerializeTupleVariant = SeqS<'a>;
    type SerializeMap = MapS<'a>; type SerializeStruct = MapS<'a>; type SerializeStructVariant = MapS<'a>;
    fn serialize_bool(self, _v: bool) -> Result<(), ShapeErr> { self.scalar() }
    fn serialize_i8(self, _v: i8) -> Result<(), ShapeErr> { self.scalar() }
    fn serialize_i16(self, _v: i16) -> Result<(), ShapeErr> { self.scalar() }
    fn serialize_i32(self, _v: i32) -> Result<(), ShapeErr> { self.scalar() }
    fn serialize_i64(self, _v: i64) -> Result<(), ShapeErr> { self.scalar() }
    fn serialize_u8(self, _v: u8) -> Result<(), ShapeErr> { self.scalar() }
    fn serialize_u16(self, _v: u16) -> Result<(), ShapeErr> { self.scalar() }
    fn serialize_u32(self, _v: u32) -> Result<(), ShapeErr> { self.scalar() }
    fn serialize_u64(self, _v: u64) -> Result<(), ShapeErr> { self.scalar() }
    fn serialize_f32(self, v: f32) -> Result<(), ShapeErr> { if !v.is_finite() { self.sh.non_finite = true; } self.scalar() }
    fn serialize_f64(self, v: f64) -> Result<(), ShapeErr> { if !v.is_finite() { self.sh.non_finite = true; } self.scalar() }
    fn serialize_char(self, _v: char) -> Result<(), ShapeErr> { self.scalar() }
    fn serialize_str(mut self, v: &str) -> Result<(), ShapeErr> { self.capture(v); self.scalar() }
    fn serialize_bytes(self, _v: &[u8]) -> Result<(), ShapeErr> { self.scalar() }
    fn serialize_none(self) -> Result<(), ShapeErr> { self.scalar() }
    fn serialize_some<T: ?Sized + Serialize>(self, v: &T) -> Result<(), ShapeErr> { v.serialize(self) }
    fn serialize_unit(self) -> Result<(), ShapeErr> { self.scalar() }
    fn serialize_unit_struct(self, _n: &'static str) -> Result<(), ShapeErr> { self.scalar() }
    fn serialize_unit_variant(mut self, _n: &'static str, _i: u32, v: &'static str) -> Result<(), ShapeErr> { self.capture(v); self.scalar() }
    fn serialize_newtype_struct<T: ?Sized + Serialize>(self, _n: &'static str, v: &T) -> Result<(), ShapeErr> { v.serialize(self) }
    fn serialize_newtype_variant<T: ?Sized + Serialize>(self, _n: &'static str, _i: u32, var: &'static str, v: &T) -> Result<(), ShapeErr> {
        let mut m = self.map()?; m.key(var); m.val(v) }
    fn serialize_seq(self, _l: Option<usize>) -> Result<SeqS<'a>, ShapeErr> { if self.depth == 0 { return Err(ShapeErr); } Ok(SeqS { sh: self.sh, depth: self.depth }) }
    fn serialize_tuple(self, _l: usize) -> Result<SeqS<'a>, ShapeErr> { if self.depth == 0 { return Err(ShapeErr); } Ok(SeqS { sh: self.sh, depth: self.depth }) }
    fn serialize_tuple_struct(self, _n: &'static str, _l: usize) -> Result<SeqS<'a>, ShapeErr> { if self.depth == 0 { return Err(ShapeErr); } Ok(SeqS { sh: self.sh, depth: self.depth }) }
    fn serialize_tuple_variant(self, _n: &'static str, _i: u32, _v: &'static str, _l: usize) -> Result<SeqS<'a>, ShapeErr> { if self.depth == 0 { return Err(ShapeErr); } Ok(SeqS { sh: self.sh, depth: self.depth }) }
    fn serialize_map(self, _l: Option<usize>) -> Result<MapS<'a>, ShapeErr> { self.map() }
    fn serialize_struct(self, _n: &'static str, _l: usize) -> Result<MapS<'a>, ShapeErr> { self.map() }
    fn serialize_struct_variant(self, _n: &'static str, _i: u32, _v: &'static str, _l: usize) -> Result<MapS<'a>, ShapeErr> { self.map() }
}
pub fn shape_of<T: Serialize>(v: &T) -> (bool, Shape) { let mut sh = Shape::new(); let ok = v.serialize(Val { sh: &mut sh, depth: 0, cap: 0 }).is_ok(); (ok, sh) }
