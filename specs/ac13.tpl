//@ unit ac13
//@ engine kani
// C13 (and the altitude / squawk rows of C01, C03, C08): 13-bit altitude and identity codes.
// Functions under contract (extracted verbatim): decode_id13, gray2alt, AC13Field::read,
// IdentityCode::read (decode/mod.rs) and decode_ac12 (bds05.rs).
// The specification functions below are written from ICAO Annex 10 vol. IV 3.1.2.6.5.4 (AC field),
// 3.1.2.6.7.1 (ID field) and the Gillham code definition (Annex 10 vol. IV, appendix to ch. 3),
// independently of the code.
//@ include _prelude_kani.rs
//@ section kani
//@ extract crates/rs1090/src/decode/mod.rs fn decode_id13
//@ extract crates/rs1090/src/decode/mod.rs fn gray2alt
//@ extract crates/rs1090/src/decode/mod.rs fn read impl=AC13Field as=AC13Field__read
//@ extract crates/rs1090/src/decode/mod.rs fn read impl=IdentityCode as=IdentityCode__read
//@ extract crates/rs1090/src/decode/bds/bds05.rs fn decode_ac12
//@ section native
//@ include _prelude_native.rs
use deku::prelude::*;
use rs1090::decode::{decode_id13, gray2alt, AC13Field, IdentityCode};
fn AC13Field__read(r: &mut BitReader) -> Result<u16, DekuError> {
    real_call(r, |rr| AC13Field::from_reader_with_ctx(rr, ()).map(|v| v.0))
}
fn IdentityCode__read(r: &mut BitReader) -> Result<u16, DekuError> {
    real_call(r, |rr| IdentityCode::from_reader_with_ctx(rr, ()).map(|v| v.0))
}
fn decode_ac12(r: &mut BitReader) -> Result<Option<u16>, DekuError> {
    // the real function is private: reach it through the public BDS 0,5 reader with TC = 11
    let c = r.rd_u16(12)? as u64;
    let me: u64 = (11u64 << 51) | (c << 36);
    let bytes = me.to_be_bytes();
    let (_, msg) = rs1090::decode::bds::bds05::AirbornePosition::from_bytes((&bytes[1..8], 0)).map_err(conv_err)?;
    Ok(msg.alt)
}
//@ section common

// ---------------- specification (from the standard) -----------------------------------------
fn bit(x: u16, i: u32) -> u16 { (x >> i) & 1 }

/// 13-bit field, MSB first: C1 A1 C2 A2 C4 A4 X B1 D1 B2 D2 B4 D4  ->  hex digits A B C D
fn id13_spec(x: u16) -> u16 {
    let a = bit(x, 7) << 2 | bit(x, 9) << 1 | bit(x, 11); // A4 A2 A1
    let b = bit(x, 1) << 2 | bit(x, 3) << 1 | bit(x, 5);  // B4 B2 B1
    let c = bit(x, 8) << 2 | bit(x, 10) << 1 | bit(x, 12); // C4 C2 C1
    let d = bit(x, 0) << 2 | bit(x, 2) << 1 | bit(x, 4);  // D4 D2 D1
    a << 12 | b << 8 | c << 4 | d
}

/// Gillham encoder: altitude step k (altitude = 100*k ft, k >= -12) -> hex-digit layout ABCD.
/// 500-ft part: 8-bit reflected binary Gray code on D2 D4 A1 A2 A4 B1 B2 B4 (D2 most significant);
/// 100-ft part: C1 C2 C4 runs 001 011 010 110 100 upwards in even 500-ft bands, downwards in odd.
fn gillham_std(k: i32) -> u16 {
    let n = (k + 13) as u32;           // altitude = 100*n - 1300, n = 5*fh + oh, oh in 1..=5
    let fh = (n - 1) / 5;
    let oh = (n - 1) % 5;               // 0..=4
    let g = (fh ^ (fh >> 1)) as u16;    // 8 bits
    let seq: [u16; 5] = [0b001, 0b011, 0b010, 0b110, 0b100]; // (C1 C2 C4)
    let c = seq[(if fh & 1 == 1 { 4 - oh } else { oh }) as usize];
    let d2 = bit(g, 7); let d4 = bit(g, 6);
    let a1 = bit(g, 5); let a2 = bit(g, 4); let a4 = bit(g, 3);
    let b1 = bit(g, 2); let b2 = bit(g, 1); let b4 = bit(g, 0);
    let c1 = bit(c, 2); let c2 = bit(c, 1); let c4 = bit(c, 0);
    (a4 << 14 | a2 << 13 | a1 << 12) | (b4 << 10 | b2 << 9 | b1 << 8) | (c4 << 6 | c2 << 5 | c1 << 4) | (d4 << 2 | d2 << 1)
}
const K_MAX: i32 = 1267; // fh = 255, oh = 5

/// standard value of a 13-bit AC code with M = 0, in feet; None = illegal code
fn ac13_std_ft(c: u16) -> Option<i32> {
    if c & 0x0010 != 0 {
        let n = ((c & 0x1f80) >> 2) | ((c & 0x0020) >> 1) | (c & 0x000f);
        Some(25 * n as i32 - 1000)
    } else {
        match gray2alt_inverse_exists(id13_spec(c)) { Some(k) => Some(100 * k), None => None }
    }
}
/// k such that gillham_std(k) == g, if any (search is replaced by the proved bijection:
/// the harness c13_gray2alt_* establish gray2alt == this relation, so here we may call the
/// specification side only: decode by inverting the Gray code arithmetically)
fn gray2alt_inverse_exists(g: u16) -> Option<i32> {
    if g & 0x8889 != 0 { return None; }              // zero bits and D1 must be clear
    let c = bit(g, 4) << 2 | bit(g, 5) << 1 | bit(g, 6); // C1 C2 C4
    let oh_pos = match c { 0b001 => 0, 0b011 => 1, 0b010 => 2, 0b110 => 3, 0b100 => 4, _ => return None };
    let gg: u32 = (bit(g, 1) as u32) << 7 | (bit(g, 2) as u32) << 6 | (bit(g, 12) as u32) << 5 | (bit(g, 13) as u32) << 4
        | (bit(g, 14) as u32) << 3 | (bit(g, 8) as u32) << 2 | (bit(g, 9) as u32) << 1 | (bit(g, 10) as u32);
    // binary from Gray
    let mut fh = gg; fh ^= fh >> 4; fh ^= fh >> 2; fh ^= fh >> 1; fh &= 0xff;
    let oh = if fh & 1 == 1 { 4 - oh_pos } else { oh_pos };
    let n = 5 * fh as i32 + oh as i32 + 1;
    Some(n - 13)
}

// ---------------- obligations -----------------------------------------------------------------

/// identity code: pure bit permutation giving four octal digits (every u16 argument)
#[kani::proof]
fn c13c03c08_decode_id13_is_the_standard_permutation() {
    let x: u16 = kani::any();
    let r = decode_id13(x);
    assert!(r == id13_spec(x));
    assert!(r & 0x8888 == 0);                                   // four octal digits
    assert!(r.count_ones() == (x & 0x1fbf).count_ones());       // permutation of the 12 code bits
}

/// the specification's inverse really inverts the specification's encoder (sanity of the spec itself)
#[kani::proof]
fn c13_spec_gillham_inverse_consistent() {
    let k: i32 = kani::any();
    kani::assume(k >= -12 && k <= K_MAX);
    assert!(gray2alt_inverse_exists(gillham_std(k)) == Some(k));
}

/// gray2alt inverts the standard's Gillham encoder on every representable step
#[kani::proof]
fn c13c03_gray2alt_inverts_standard_encoder() {
    let k: i32 = kani::any();
    kani::assume(k >= 0 && k <= K_MAX);
    assert!(gray2alt(gillham_std(k)) == Ok(k));
}

/// gray2alt accepts exactly the image of the encoder (all 2^16 arguments): one-to-one
#[kani::proof]
fn c13_gray2alt_ok_only_on_standard_codes() {
    let g: u16 = kani::any();
    match gray2alt(g) {
        Ok(k) => { assert!(k >= 0 && k <= K_MAX); assert!(gillham_std(k) == g); }
        Err(_) => { let s = gray2alt_inverse_exists(g); assert!(s.is_none() || s.unwrap() < 0); }
    }
}

/// neighbouring 100-ft steps differ in exactly one bit (Gray sequence), all steps incl. negative
#[kani::proof]
fn c13_gillham_neighbours_differ_in_one_bit() {
    let k: i32 = kani::any();
    kani::assume(k >= -12 && k < K_MAX);
    assert!((gillham_std(k) ^ gillham_std(k + 1)).count_ones() == 1);
}

/// AC13 reader, all 2^13 codes with M = 0: the standard's value, or 0 (= unavailable) when the
/// code is illegal, negative or above u16
#[kani::proof]
fn c13c03c08_ac13_read_standard_value() {
    let mut r = BitReader::any();
    let p0 = r.bits_read;
    let mut probe = BitReader { data: r.data, bits_read: r.bits_read, len_bits: r.len_bits };
    let res = AC13Field__read(&mut r);
    match probe.rd_u16(13) {
        Err(_) => assert!(res.is_err()),
        Ok(c) => {
            assert!(r.bits_read == p0 + 13);
            let v = res.unwrap();
            if c & 0x0040 == 0 {
                match ac13_std_ft(c) {
                    Some(ft) if ft > 0 && ft <= 65535 => assert!(v as i32 == ft),
                    _ => assert!(v == 0),
                }
            }
        }
    }
}

/// AC13 reader is total for every code including M = 1 (metric) — no panic, result defined
#[kani::proof]
fn c01_ac13_read_total() {
    let mut r = BitReader::any();
    let _ = AC13Field__read(&mut r);
}

/// 12-bit ME altitude, all 2^12 codes: the standard's value or None when illegal / not representable
#[kani::proof]
fn c13c03c08_ac12_standard_value() {
    let mut r = BitReader::any();
    let mut probe = BitReader { data: r.data, bits_read: r.bits_read, len_bits: r.len_bits };
    let res = decode_ac12(&mut r);
    match probe.rd_u16(12) {
        Err(_) => assert!(res.is_err()),
        Ok(c12) => {
            let c13 = ((c12 & 0x0fc0) << 1) | (c12 & 0x003f); // re-insert M = 0
            let v = res.unwrap();
            match ac13_std_ft(c13) {
                Some(ft) if ft >= 0 && ft <= 65535 => assert!(v == Some(ft as u16)),
                _ => assert!(v.is_none()),
            }
        }
    }
}

/// both encodings agree on the same code (12-bit code expanded with M = 0)
#[kani::proof]
fn c13_ac12_agrees_with_ac13() {
    let bytes: [u8; 16] = kani::any();
    let mut r12 = BitReader::new(bytes, 0, 128);
    let c12 = (u128::from_be_bytes(bytes) >> 116) as u16;
    let c13 = ((c12 & 0x0fc0) << 1) | (c12 & 0x003f);
    let mut r13 = BitReader::new(((c13 as u128) << 115).to_be_bytes(), 0, 128);
    let a12 = decode_ac12(&mut r12).unwrap();
    let a13 = AC13Field__read(&mut r13).unwrap();
    assert!(a12.unwrap_or(0) == a13);
}

/// squawk reader: reads 13 bits, result is the permutation of them
#[kani::proof]
fn c13c01c08_identity_read() {
    let mut r = BitReader::any();
    let mut probe = BitReader { data: r.data, bits_read: r.bits_read, len_bits: r.len_bits };
    let res = IdentityCode__read(&mut r);
    match probe.rd_u16(13) {
        Err(_) => assert!(res.is_err()),
        Ok(c) => { let v = res.unwrap(); assert!(v == id13_spec(c)); assert!(v & 0x8888 == 0); }
    }
}

/// vacuity canary: must FAIL (claims every altitude code decodes to 0)
#[kani::proof]
fn canary_c13_all_zero() {
    let mut r = BitReader::any();
    if let Ok(v) = AC13Field__read(&mut r) { assert!(v == 0); }
}
