//@ unit beast
//@ engine kani
//@ opt harness_timeout 1200
// C09 — Beast framing: the `while data.len() >= 23 { ... }` loop of rs1090::source::beast::next_msg,
// extracted verbatim as a step function over the reassembly buffer (block rule; R6: `yield msg` ->
// `out.push(msg)`; the async socket read around it is outside the claim: one call = the processing
// that follows one read).  R7: the HashSet of valid type bytes is a stand-in with the same membership.
// BOUNDED stand-in only (Vec surgery - split_off / splice / drain - admits no loop contract in the
// installed tools): frames, wire bytes and cut points are bounded as stated on each harness.
#![allow(dead_code, unused_variables, unused_mut, unused_imports, non_snake_case, unused_parens)]
pub struct ValidTypes;
impl ValidTypes { pub fn contains(&self, t: &u8) -> bool { *t == 0x31 || *t == 0x32 || *t == 0x33 || *t == 0x34 } }
// R7b stand-in for the reassembly buffer `Vec<u8>` (TRUSTED to behave like std's Vec for exactly the
// operations the loop uses): array-backed, capacity CAP; an operation that would exceed CAP fails the proof
// (so the bound is checked, not assumed).  Frames handed on are collected in an array-backed list as well.
pub const CAP: usize = 64;
#[derive(Clone, Copy)]
pub struct ByteBuf { pub b: [u8; CAP], pub n: usize }
impl ByteBuf {
    pub fn new() -> ByteBuf { ByteBuf { b: [0; CAP], n: 0 } }
    pub fn len(&self) -> usize { self.n }
    pub fn iter(&self) -> core::slice::Iter<'_, u8> { self.b[..self.n].iter() }
    pub fn get(&self, i: usize) -> Option<&u8> { if i < self.n { Some(&self.b[i]) } else { None } }
    pub fn extend_from_slice(&mut self, x: &[u8]) { let mut i = 0; while i < x.len() { assert!(self.n < CAP); self.b[self.n] = x[i]; self.n += 1; i += 1; } }
    /// Vec::split_off(at): self keeps [0, at), returns [at, len); panics if at > len
    pub fn split_off(&mut self, at: usize) -> ByteBuf {
        assert!(at <= self.n);
        let mut r = ByteBuf::new();
        let mut i = at; while i < self.n { r.b[i - at] = self.b[i]; i += 1; }
        r.n = self.n - at; self.n = at; r
    }
    /// Vec::splice(range, empty()): removes the range; panics if the range is out of bounds
    pub fn splice(&mut self, r: core::ops::RangeInclusive<usize>, _with: core::iter::Empty<u8>) {
        let (a, e) = (*r.start(), *r.end() + 1);
        assert!(a <= e && e <= self.n);
        let k = e - a;
        let mut i = e; while i < self.n { self.b[i - k] = self.b[i]; i += 1; }
        self.n -= k;
    }
    /// Vec::drain(..k).collect(): removes and returns the first k bytes; panics if k > len
    pub fn drain(&mut self, r: core::ops::RangeTo<usize>) -> Drained {
        assert!(r.end <= self.n);
        let mut f = ByteBuf::new();
        let mut i = 0; while i < r.end { f.b[i] = self.b[i]; i += 1; }
        f.n = r.end;
        let mut j = r.end; while j < self.n { self.b[j - r.end] = self.b[j]; j += 1; }
        self.n -= r.end;
        Drained(f)
    }
}
pub struct Drained(ByteBuf);
impl Drained { pub fn collect_buf(self) -> ByteBuf { self.0 } }
impl core::ops::Index<usize> for ByteBuf { type Output = u8; fn index(&self, i: usize) -> &u8 { assert!(i < self.n); &self.b[i] } }
impl core::ops::Index<core::ops::Range<usize>> for ByteBuf { type Output = [u8]; fn index(&self, r: core::ops::Range<usize>) -> &[u8] { assert!(r.start <= r.end && r.end <= self.n); &self.b[r.start..r.end] } }
pub struct Out { pub f: [ByteBuf; 4], pub n: usize }
impl Out { pub fn new() -> Out { Out { f: [ByteBuf::new(); 4], n: 0 } } pub fn push(&mut self, m: ByteBuf) { assert!(self.n < 4); self.f[self.n] = m; self.n += 1; } pub fn len(&self) -> usize { self.n } }
//@ sub "yield msg" "out.push(msg)"
//@ sub "collect::<Vec<u8>>\(\)" "collect_buf()"
//@ extract crates/rs1090/src/source/beast.rs block fn=next_msg anchor="while data\.len\(\) >= 23" header="fn drain_frames(mut data: ByteBuf, valid_msg_types: &ValidTypes, out: &mut Out) -> ByteBuf" footer="data"

// ---------------- specification: Beast escape grammar ---------------------------------------------
pub const MAXW: usize = 48;
/// wire form of one frame: 0x1A, type byte, then every body byte with 0x1A doubled
fn put_frame(w: &mut [u8; MAXW], n: &mut usize, ty: u8, body: &[u8]) {
    w[*n] = 0x1A; *n += 1;
    w[*n] = ty; *n += 1;
    let mut i = 0;
    while i < body.len() {
        w[*n] = body[i]; *n += 1;
        if body[i] == 0x1A { w[*n] = 0x1A; *n += 1; }
        i += 1;
    }
}
fn feed(data: ByteBuf, chunk: &[u8], out: &mut Out) -> ByteBuf {
    let mut data = data;
    data.extend_from_slice(chunk);
    drain_frames(data, &ValidTypes, out)
}
fn frame_eq(got: &ByteBuf, ty: u8, body: &[u8]) -> bool {
    if got.len() != body.len() + 2 || got.b[0] != 0x1A || got.b[1] != ty { return false; }
    let mut i = 0;
    while i < body.len() { if got.b[2 + i] != body[i] { return false; } i += 1; }
    true
}
/// BOUNDED: one short Mode S frame followed by one long frame, at most 2 escaped bytes in total, one cut
/// point anywhere: both frames come out, in order, un-escaped and unmodified, whatever the cut
//@ harness bounded="2 frames (short then long), at most 2 payload bytes equal to 0x1A, 1 cut point anywhere in the wire stream"
#[kani::proof]
#[kani::unwind(50)]
fn c09_short_then_long_any_single_cut() {
    let b1: [u8; 14] = kani::any();
    let b2: [u8; 21] = kani::any();
    let mut esc = 0;
    let mut i = 0; while i < 14 { if b1[i] == 0x1A { esc += 1; } i += 1; }
    let mut j = 0; while j < 21 { if b2[j] == 0x1A { esc += 1; } j += 1; }
    kani::assume(esc <= 2);
    let mut w = [0u8; MAXW]; let mut n = 0;
    put_frame(&mut w, &mut n, 0x32, &b1);
    put_frame(&mut w, &mut n, 0x33, &b2);
    let cut: usize = kani::any(); kani::assume(cut <= n);
    let mut out = Out::new();
    let d = feed(ByteBuf::new(), &w[..cut], &mut out);
    let d = feed(d, &w[cut..n], &mut out);
    assert!(out.len() == 2);
    assert!(frame_eq(&out.f[0], 0x32, &b1));
    assert!(frame_eq(&out.f[1], 0x33, &b2));
    assert!(d.len() == 0);
}
/// vacuity canary: must FAIL
#[kani::proof]
#[kani::unwind(50)]
fn canary_beast_nothing_emitted() {
    let b1: [u8; 14] = kani::any();
    kani::assume(b1[0] != 0x1A && b1[1] != 0x1A && b1[2] != 0x1A && b1[3] != 0x1A && b1[4] != 0x1A && b1[5] != 0x1A && b1[6] != 0x1A && b1[7] != 0x1A && b1[8] != 0x1A && b1[9] != 0x1A && b1[10] != 0x1A && b1[11] != 0x1A && b1[12] != 0x1A && b1[13] != 0x1A);
    let mut w = [0u8; MAXW]; let mut n = 0;
    put_frame(&mut w, &mut n, 0x32, &b1);
    put_frame(&mut w, &mut n, 0x32, &b1);
    let mut out = Out::new();
    let _d = feed(ByteBuf::new(), &w[..n], &mut out);
    assert!(out.len() == 0);
}
