//@ unit commb
//@ engine kani
// Comm-B hypothesis dispatcher (DF20DataSelector / DF21DataSelector::from_reader_with_ctx), verbatim.
// C01: total on every 56-bit payload (also on short input), errors of the speculative register
// decoders are swallowed; C03: a DF20 payload is labelled BDS 0,5 only when its altitude equals the
// altitude of the surveillance header.
// The 14 derive-generated register readers `X::try_from(&[u8])` are stand-ins (R7) returning any
// outcome; their own field functions are under contract in the f_* units.
#![allow(dead_code, unused_variables, unused_mut, unused_imports, non_snake_case, unused_parens)]
#[derive(Debug, Clone, Copy, PartialEq, Eq, kani::Arbitrary)]
pub enum DekuError { Incomplete, Parse, InvalidParam, Assertion, AssertionNoStr, IdVariantNotFound, Io }
impl DekuError { pub fn to_string(&self) -> u8 { 0 } }
/// TRUSTED CONTRACT of deku::reader::Reader::read_bits (R2): Err(Incomplete) when fewer than n bits
/// remain, else Some(the next n bits); only whole-byte reads at byte positions occur here
pub struct BitReader { pub data: [u8; 16], pub len: usize, pub bits_read: usize }
pub struct Bits(Vec<u8>);
impl Bits { pub fn into_vec(self) -> Vec<u8> { self.0 } }
impl BitReader {
    pub fn read_bits(&mut self, n: usize) -> Result<Option<Bits>, DekuError> {
        if n == 0 { return Ok(None); }
        assert!(n % 8 == 0 && self.bits_read % 8 == 0);
        if self.bits_read + n > self.len * 8 { return Err(DekuError::Incomplete); }
        let a = self.bits_read / 8;
        let v = self.data[a..a + n / 8].to_vec();
        self.bits_read += n;
        Ok(Some(Bits(v)))
    }
}
#[derive(Debug, Clone, Copy, PartialEq)]
pub struct AC13Field(pub u16);
macro_rules! standin {
    ($($t:ident),*) => { $(
        #[derive(Debug, Clone, PartialEq, kani::Arbitrary)]
        pub struct $t { pub token: u8 }
        impl $t { pub fn try_from(b: &[u8]) -> Result<$t, DekuError> { assert!(b.len() == 7); if kani::any() { Ok(kani::any()) } else { Err(kani::any()) } } }
    )* };
}
standin!(DataLinkCapability, CommonUsageGICBCapabilityReport, GICBCapabilityReportPart1, GICBCapabilityReportPart2,
         AircraftIdentification, AircraftAndAirlineRegistrationMarkings, ACASResolutionAdvisory, SelectedVerticalIntention,
         MeteorologicalRoutineAirReport, MeteorologicalHazardReport, TrackAndTurnReport, HeadingAndSpeedReport, AircraftOperationStatus);
/// stand-in for the BDS 0,5 reader: any outcome, any altitude; remembers the type code it was offered
#[derive(Debug, Clone, PartialEq, kani::Arbitrary)]
pub struct AirbornePosition { pub alt: Option<u16>, pub token: u8 }
pub static mut BDS05_TC: u8 = 0xff;
impl AirbornePosition {
    pub fn try_from(b: &[u8]) -> Result<AirbornePosition, DekuError> {
        assert!(b.len() == 7);
        unsafe { BDS05_TC = b[0] >> 3; }
        if kani::any() { Ok(kani::any()) } else { Err(kani::any()) }
    }
}
//@ extract crates/rs1090/src/decode/commb.rs struct DF20DataSelector derive="Debug, PartialEq, Clone, Default"
//@ extract crates/rs1090/src/decode/commb.rs struct DF21DataSelector derive="Debug, PartialEq, Clone, Default"
//@ extract crates/rs1090/src/decode/commb.rs fn from_reader_with_ctx impl=DF20DataSelector trait=DekuReader wrap
//@ extract crates/rs1090/src/decode/commb.rs fn from_reader_with_ctx impl=DF21DataSelector trait=DekuReader wrap

fn any_reader() -> BitReader {
    let data: [u8; 16] = kani::any();
    let len: usize = kani::any(); kani::assume(len <= 16);
    let pos: usize = kani::any(); kani::assume(pos <= 8);
    BitReader { data, len, bits_read: pos * 8 }
}
#[kani::proof]
#[kani::unwind(9)]
fn c01c03_commb_df20_dispatch() {
    let mut r = any_reader();
    let (data, pos, len) = (r.data, r.bits_read / 8, r.len);
    let ac = AC13Field(kani::any());
    let res = DF20DataSelector::from_reader_with_ctx(&mut r, ac);
    if pos + 7 > len { assert!(res == Err(DekuError::Incomplete)); return; }
    let d = res.unwrap();                                             // never an error once 56 bits are there
    assert!(r.bits_read == 8 * (pos + 7));
    let mut zero = true;
    let mut i = 0; while i < 7 { if data[pos + i] != 0 { zero = false; } i += 1; }
    assert!(d.is_empty == zero);
    if zero { assert!(d == DF20DataSelector { is_empty: true, ..Default::default() }); }
    // C03: labelled as an airborne position only with the altitude of the surveillance header, and only
    // when the payload's type code is an airborne-position type code
    if let Some(p) = &d.bds05 {
        assert!(p.alt == Some(ac.0));
        let tc = data[pos] >> 3;
        assert!((tc >= 9 && tc <= 18) || tc == 20 || tc == 21);
        assert!(unsafe { BDS05_TC } == tc);
    }
    if d.bds65.is_some() { assert!(data[pos] >> 3 == 31 && data[pos] & 7 < 2); }
    kani::cover!(d.bds05.is_some());
    kani::cover!(d.bds65.is_some() && d.bds50.is_some());
}
#[kani::proof]
#[kani::unwind(9)]
fn c01c03_commb_df21_dispatch() {
    let mut r = any_reader();
    let (data, pos, len) = (r.data, r.bits_read / 8, r.len);
    let res = DF21DataSelector::from_reader_with_ctx(&mut r, ());
    if pos + 7 > len { assert!(res == Err(DekuError::Incomplete)); return; }
    let d = res.unwrap();
    assert!(r.bits_read == 8 * (pos + 7));
    let mut zero = true;
    let mut i = 0; while i < 7 { if data[pos + i] != 0 { zero = false; } i += 1; }
    assert!(d.is_empty == zero);
    // DF21 carries no altitude to validate against: never labelled as an airborne position
    assert!(d.bds05.is_none());
    if d.bds65.is_some() { assert!(data[pos] >> 3 == 31 && data[pos] & 7 < 2); }
    kani::cover!(d.bds60.is_some());
}
/// vacuity canary: must FAIL
#[kani::proof]
#[kani::unwind(9)]
fn canary_commb_never_bds05() {
    let mut r = any_reader();
    let ac = AC13Field(kani::any());
    if let Ok(d) = DF20DataSelector::from_reader_with_ctx(&mut r, ac) { assert!(d.bds05.is_none()); }
}
