//@ unit cpr
//@ engine kani-cargo
//@ dep libm = "0.2.11"
//@ opt harness_timeout 1200
// C04 / C05 — CPR decoding (crates/rs1090/src/decode/cpr.rs), verbatim: nl, modulo,
// airborne_position, airborne_position_with_reference, surface_position_with_reference, with the
// real `libm` crate (its software floor/fabs are symbolically executed, not trusted).
// Specification side: NL transition latitudes generated from the closed form of DO-260B A.1.7.2 d
// (specs/_nl_table.rs), CPR encoder of DO-260B A.1.7.3 written below; both independent of the code.
#![allow(dead_code, unused_variables, unused_mut, unused_imports, non_snake_case, unused_parens)]
use libm::fabs;
//@ extract crates/rs1090/src/decode/cpr.rs enum CPRFormat derive="Debug, PartialEq, Eq, Copy, Clone"
//@ extract crates/rs1090/src/decode/cpr.rs struct Position derive="Debug, PartialEq, Clone, Copy"
//@ extract crates/rs1090/src/decode/bds/bds05.rs enum SurveillanceStatus derive="Debug, PartialEq, Eq, Copy, Clone"
//@ extract crates/rs1090/src/decode/bds/bds05.rs enum Source derive="Debug, PartialEq, Eq, Copy, Clone"
//@ sub "\btc: u8," "pub tc: u8,"
//@ extract crates/rs1090/src/decode/bds/bds05.rs struct AirbornePosition derive="Debug, PartialEq, Copy, Clone"
//@ extract crates/rs1090/src/decode/bds/bds06.rs struct SurfacePosition derive="Debug, PartialEq, Copy, Clone"
//@ extract crates/rs1090/src/decode/cpr.rs const NZ
//@ extract crates/rs1090/src/decode/cpr.rs const CPR_MAX
//@ extract crates/rs1090/src/decode/cpr.rs fn nl
//@ extract crates/rs1090/src/decode/cpr.rs const D_LAT_EVEN
//@ extract crates/rs1090/src/decode/cpr.rs const D_LAT_ODD
//@ extract crates/rs1090/src/decode/cpr.rs fn modulo
//@ extract crates/rs1090/src/decode/cpr.rs fn airborne_position
//@ extract crates/rs1090/src/decode/cpr.rs fn airborne_position_with_reference
//@ extract crates/rs1090/src/decode/cpr.rs fn surface_position_with_reference

//@ include _nl_table.rs
/// NL per the standard: number of longitude zones at latitude `lat` (table look-up on the transition
/// latitudes; NL(+-87) = 2, NL = 1 beyond).  `eps` shifts every transition (for tolerance bands).
fn nl_std_eps(lat: f64, eps: f64) -> u64 {
    let a = if lat < 0. { -lat } else { lat };
    let mut i = 0;
    while i < 57 {
        if a < NL_T[i].1 + eps { return NL_T[i].0; }
        i += 1;
    }
    if a <= 87.0 { 2 } else { 1 }      // 87 is exact in the standard (NL(+-87) = 2): no tolerance sliver here
}
fn nl_std(lat: f64) -> u64 { nl_std_eps(lat, 0.) }

fn any_airborne(parity: CPRFormat) -> AirbornePosition {
    let lat_cpr: u32 = kani::any(); let lon_cpr: u32 = kani::any();
    kani::assume(lat_cpr < (1 << 17) && lon_cpr < (1 << 17));        // 17-bit reads (reader contract)
    AirbornePosition { tc: 11, nuc_p: 7, ss: SurveillanceStatus::NoCondition, saf_or_nicb: Some(0), alt: Some(1000),
        source: Source::Barometric, time_sync: false, parity, lat_cpr, lon_cpr, latitude: None, longitude: None }
}
fn any_surface() -> SurfacePosition {
    let lat_cpr: u32 = kani::any(); let lon_cpr: u32 = kani::any();
    kani::assume(lat_cpr < (1 << 17) && lon_cpr < (1 << 17));
    let parity = if kani::any() { CPRFormat::Even } else { CPRFormat::Odd };
    SurfacePosition { tc: 7, nuc_p: 7, groundspeed: None, track_status: false, track: None, t: false, parity, lat_cpr, lon_cpr, latitude: None, longitude: None }
}

/// C04: the zone table equals the standard's NL for every f64 (NaN, infinities included: no panic),
/// to within 1e-8 deg of each transition latitude, and exactly at +-87 (NL = 2)
#[kani::proof]
#[kani::unwind(60)]
fn c04c05_nl_is_the_standard_table() {
    let lat: f64 = kani::any();
    let r = nl(lat);
    assert!(r >= 1 && r <= 59);
    if !lat.is_nan() {
        assert!(r >= nl_std_eps(lat, -1e-8) && r <= nl_std_eps(lat, 1e-8));
        assert!(nl(-lat) == r);
        if lat == 87. || lat == -87. { assert!(r == 2); }      // DO-260B A.1.7.2 d: NL(+-87) = 2
        if lat == 0. { assert!(r == 59); }
    }
}
/// C04: a pair with the same parity never yields a position
#[kani::proof]
fn c04_same_parity_gives_nothing() {
    let p = if kani::any() { CPRFormat::Even } else { CPRFormat::Odd };
    let a = any_airborne(p); let b = any_airborne(p);
    assert!(airborne_position(&a, &b).is_none());
}
/// C04: for all 2^68 (even, odd) pairs in both orders: no panic, and any position returned has
/// latitude in [-90, 90] and longitude in [-180, 180) (never NaN)
#[kani::proof]
fn c04_global_result_in_range() {
    let e = any_airborne(CPRFormat::Even); let o = any_airborne(CPRFormat::Odd);
    let even_last: bool = kani::any();
    let r = if even_last { airborne_position(&o, &e) } else { airborne_position(&e, &o) };
    if let Some(p) = r {
        assert!(p.latitude >= -90. && p.latitude <= 90.);
        assert!(p.longitude >= -180. && p.longitude < 180.);
    }
    kani::cover!(r.is_some());
}
/// C05: airborne, any message, ANY finite reference: absent, or latitude in [-90, 90] and within half a
/// zone of the reference in both coordinates (zone sizes from the standard: 360/60, 360/59; 360/max(NL-i,1))
#[kani::proof]
fn c05t_airborne_any_finite_reference_result_near_reference() { airborne_near_reference(f64::MAX, f64::MAX); }
/// quick-tier instance of the same contract: every reference with |lat| <= 90, |lon| <= 540
#[kani::proof]
fn c05_airborne_reference_result_near_reference() { airborne_near_reference(90., 540.); }
fn airborne_near_reference(max_lat: f64, max_lon: f64) {
    let m = any_airborne(if kani::any() { CPRFormat::Even } else { CPRFormat::Odd });
    let rlat: f64 = kani::any(); let rlon: f64 = kani::any();
    kani::assume(rlat.is_finite() && rlon.is_finite() && rlat.abs() <= max_lat && rlon.abs() <= max_lon);
    let r = airborne_position_with_reference(&m, rlat, rlon);
    if let Some(p) = r {
        let i = if m.parity == CPRFormat::Odd { 1 } else { 0 };
        let d_lat = 360. / (60 - i) as f64;
        assert!(p.latitude >= -90. && p.latitude <= 90.);
        assert!((p.latitude - rlat).abs() <= d_lat / 2. * (1. + 1e-12));
        let ni_lo = { let n = nl_std_eps(p.latitude, -1e-8) as i64 - i; if n < 1 { 1 } else { n } };   // within 1e-8 deg of a transition: the wider zone
        assert!((p.longitude - rlon).abs() <= 360. / ni_lo as f64 / 2. * (1. + 1e-12));
        assert!(p.longitude.is_finite());
    }
    kani::cover!(r.is_some());
}
/// C05: surface (zones are a quarter as large: 90/60, 90/59; 90/max(NL-i,1))
#[kani::proof]
fn c05t_surface_any_finite_reference_result_near_reference() { surface_near_reference(f64::MAX, f64::MAX); }
#[kani::proof]
fn c05t_surface_bounded_reference_result_near_reference() { surface_near_reference(90., 540.); }
fn surface_near_reference(max_lat: f64, max_lon: f64) {
    let m = any_surface();
    let rlat: f64 = kani::any(); let rlon: f64 = kani::any();
    kani::assume(rlat.is_finite() && rlon.is_finite() && rlat.abs() <= max_lat && rlon.abs() <= max_lon);
    let r = surface_position_with_reference(&m, rlat, rlon);
    if let Some(p) = r {
        let i = if m.parity == CPRFormat::Odd { 1 } else { 0 };
        let d_lat = 90. / (60 - i) as f64;
        assert!(p.latitude >= -90. && p.latitude <= 90.);
        assert!((p.latitude - rlat).abs() <= d_lat / 2. * (1. + 1e-12));
        let ni_lo = { let n = nl_std_eps(p.latitude, -1e-8) as i64 - i; if n < 1 { 1 } else { n } };
        assert!((p.longitude - rlon).abs() <= 90. / ni_lo as f64 / 2. * (1. + 1e-12));
        assert!(p.longitude.is_finite());
    }
    kani::cover!(r.is_some());
}
// ---------------- accuracy: encoder of DO-260B A.1.7.3 (independent of the decoder) ---------------
fn std_mod(x: f64, y: f64) -> f64 { x - y * (x / y).floor() }            // MOD of the MOPS; f64::floor is CBMC's exact built-in
/// airborne CPR encoding (Nb = 17) of (lat, lon), format i (0 even, 1 odd) -> (YZ, XZ, Rlat)
fn cpr_encode(lat: f64, lon: f64, i: u32) -> (u32, u32, f64) { cpr_encode_span(lat, lon, i, 360.0) }
/// `span` = 360 (airborne, Nb = 17) or 90 (surface: Nb = 19 truncated to the 17 low bits, i.e. quarter-size zones)
fn cpr_encode_span(lat: f64, lon: f64, i: u32, span: f64) -> (u32, u32, f64) {
    let dlat = span / (60.0 - i as f64);
    let yz = (131072.0 * std_mod(lat, dlat) / dlat + 0.5).floor();
    let rlat = dlat * (yz / 131072.0 + (lat / dlat).floor());
    let n = nl_std(rlat) as i64 - i as i64;
    let dlon = span / (if n < 1 { 1 } else { n }) as f64;
    let xz = (131072.0 * std_mod(lon, dlon) / dlon + 0.5).floor();
    ((yz as u32) & 0x1FFFF, (xz as u32) & 0x1FFFF, rlat)
}
fn frame(parity: CPRFormat, lat_cpr: u32, lon_cpr: u32) -> AirbornePosition {
    AirbornePosition { tc: 11, nuc_p: 7, ss: SurveillanceStatus::NoCondition, saf_or_nicb: Some(0), alt: Some(1000),
        source: Source::Barometric, time_sync: false, parity, lat_cpr, lon_cpr, latitude: None, longitude: None }
}
/// distance of `a` to the nearest NL transition latitude (used to exclude the 1e-7 deg slivers where
/// the 8-decimal table and the closed form may disagree)
fn near_transition(a: f64) -> bool {
    let a = if a < 0. { -a } else { a };
    let mut i = 0;
    while i < 58 { if (a - NL_T[i].1).abs() < 1e-7 { return true; } i += 1; }
    false
}
/// C04 latitude accuracy and the no-position rule on one latitude band, for EVERY longitude (the
/// longitude counts are arbitrary 17-bit values): every true latitude in [lat_lo, lat_hi], both orders:
/// a returned latitude is within 10 m (9.0e-5 deg) of the truth, and nothing is returned only when
/// NL(Rlat_even) != NL(Rlat_odd).  `t` is the only NL transition latitude inside the band widened by
/// one zone step (checked by the generator); reports whose Rlat lies within 1e-7 deg of it are excluded
/// (the 8-decimal table and the closed form may disagree there).
fn latitude_band(lat_lo: f64, lat_hi: f64, t: f64) {
    let lat: f64 = kani::any();
    kani::assume(lat >= lat_lo && lat <= lat_hi);
    let (yz0, _x0, rlat0) = cpr_encode(lat, 0., 0);
    let (yz1, _x1, rlat1) = cpr_encode(lat, 0., 1);
    kani::assume((rlat0.abs() - t).abs() > 1e-7 && (rlat1.abs() - t).abs() > 1e-7);
    let xz0: u32 = kani::any(); let xz1: u32 = kani::any();
    kani::assume(xz0 < (1 << 17) && xz1 < (1 << 17));
    let e = frame(CPRFormat::Even, yz0, xz0); let o = frame(CPRFormat::Odd, yz1, xz1);
    let even_last: bool = kani::any();
    let r = if even_last { airborne_position(&o, &e) } else { airborne_position(&e, &o) };
    let same_band = (rlat0.abs() < t) == (rlat1.abs() < t);
    match r {
        Some(p) => { assert!((p.latitude - lat).abs() <= 9.0e-5); assert!(same_band); }
        None => assert!(!same_band),
    }
    kani::cover!(r.is_some());
}
/// C04 full accuracy on a latitude strip that contains no NL transition (NL constant = `nlv`), for every
/// longitude in [lon_lo, lon_hi]: within 10 m in both coordinates (longitude tolerance scaled by
/// kcos <= 1/cos(lat) on the strip, compared modulo 360); with no transition in the strip a position
/// must always be returned
fn accuracy_strip(lat_lo: f64, lat_hi: f64, lon_lo: f64, lon_hi: f64, kcos: f64) {
    let lat: f64 = kani::any(); let lon: f64 = kani::any();
    kani::assume(lat >= lat_lo && lat <= lat_hi && lon >= lon_lo && lon <= lon_hi);
    let (yz0, xz0, rlat0) = cpr_encode(lat, lon, 0);
    let (yz1, xz1, rlat1) = cpr_encode(lat, lon, 1);
    let e = frame(CPRFormat::Even, yz0, xz0); let o = frame(CPRFormat::Odd, yz1, xz1);
    let even_last: bool = kani::any();
    let r = if even_last { airborne_position(&o, &e) } else { airborne_position(&e, &o) };
    match r {
        Some(p) => {
            assert!((p.latitude - lat).abs() <= 9.0e-5);
            assert!(p.longitude >= -180. && p.longitude < 180.);
            let mut d = (p.longitude - lon).abs();
            if d > 180. { d = 360. - d; }
            assert!(d <= 9.0e-5 * kcos);
        }
        None => assert!(false),
    }
}

/// C05 in-range exactness: true position in a small cell, reference anywhere within a box of
/// +-dlat_max deg latitude and +-dlon_max deg longitude around it (the box lies inside the unambiguous
/// range: 180 NM airborne, 45 NM surface; the reference longitude is normalised to [-180, 180) as a
/// user would give it): the single report decodes, against that reference, to the true position within
/// 10 m (longitude modulo 360).  Positions whose Rlat is within 1e-7 deg of the NL transition `t` are excluded.
fn reference_cell(surface: bool, lat_lo: f64, lat_hi: f64, lon_lo: f64, lon_hi: f64, dlat_max: f64, dlon_max: f64, kcos: f64, t: f64) {
    let lat: f64 = kani::any(); let lon: f64 = kani::any();
    kani::assume(lat >= lat_lo && lat <= lat_hi && lon >= lon_lo && lon <= lon_hi);
    let odd: bool = kani::any();
    let (yz, xz, rlat) = cpr_encode_span(lat, lon, odd as u32, if surface { 90. } else { 360. });
    kani::assume((rlat.abs() - t).abs() > 1e-7);
    let dlat: f64 = kani::any(); let dlon: f64 = kani::any();
    kani::assume(dlat >= -dlat_max && dlat <= dlat_max && dlon >= -dlon_max && dlon <= dlon_max);
    let rlat_ref = lat + dlat;
    let mut rlon_ref = lon + dlon;
    if rlon_ref >= 180. { rlon_ref -= 360.; }
    if rlon_ref < -180. { rlon_ref += 360.; }
    kani::assume(rlat_ref >= -90. && rlat_ref <= 90.);
    let parity = if odd { CPRFormat::Odd } else { CPRFormat::Even };
    let r = if surface {
        let m = SurfacePosition { tc: 7, nuc_p: 7, groundspeed: None, track_status: false, track: None, t: false, parity, lat_cpr: yz, lon_cpr: xz, latitude: None, longitude: None };
        surface_position_with_reference(&m, rlat_ref, rlon_ref)
    } else {
        airborne_position_with_reference(&frame(parity, yz, xz), rlat_ref, rlon_ref)
    };
    match r {
        Some(p) => {
            assert!((p.latitude - lat).abs() <= 9.0e-5);
            let mut d = (p.longitude - lon).abs();
            if d > 540. { d = (d - 720.).abs(); } else if d > 180. { d = (d - 360.).abs(); }
            assert!(d <= 9.0e-5 * kcos);
        }
        None => assert!(false),       // an in-range reference always yields the position
    }
}
//@ include _cpr_cells.rs

/// vacuity canary: must FAIL
#[kani::proof]
fn canary_cpr_never_north() {
    let e = any_airborne(CPRFormat::Even); let o = any_airborne(CPRFormat::Odd);
    if let Some(p) = airborne_position(&e, &o) { assert!(p.latitude <= 0.); }
}
