//@ unit cpr_state
//@ engine kani-cargo
//@ dep libm = "0.2.11"
//@ opt harness_timeout 1500
// C06 (second sentence: aircraft do not interfere) — frame contract of the stateful decoder
// rs1090::decode::cpr::decode_position, verbatim, with the verbatim CPR functions it calls.
// Stand-ins (stated): `ME` reduced to the two variants the function matches plus one opaque variant;
// `ICAO` is the same one-field tuple struct; dist_haversine (sin / cos / atan2 / sqrt: outside CBMC's exact
// float model) returns an arbitrary distance — the frame contract must hold whatever the plausibility gates decide.
#![allow(dead_code, unused_variables, unused_mut, unused_imports, non_snake_case, unused_parens)]
use libm::fabs;
#[derive(PartialEq, Eq, PartialOrd, Ord, Hash, Copy, Clone, Debug)]
pub struct ICAO(pub u32);
// R7b stand-in for std::collections::BTreeMap<ICAO, AircraftState> (TRUSTED to behave like the std map for
// the operations offered; the real map exhausts 60 GB in CBMC): at most 3 entries, array-backed.
pub struct BTreeMap<K: Copy + PartialEq, V: Copy> { pub k: [Option<K>; 3], pub v: [Option<V>; 3] }
pub struct Entry<'a, K: Copy + PartialEq, V: Copy> { m: &'a mut BTreeMap<K, V>, key: K }
impl<K: Copy + PartialEq, V: Copy> BTreeMap<K, V> {
    pub fn new() -> Self { BTreeMap { k: [None; 3], v: [None; 3] } }
    fn slot(&self, key: &K) -> Option<usize> { let mut i = 0; while i < 3 { if self.k[i] == Some(*key) { return Some(i); } i += 1; } None }
    pub fn len(&self) -> usize { let mut n = 0; let mut i = 0; while i < 3 { if self.k[i].is_some() { n += 1; } i += 1; } n }
    pub fn contains_key(&self, key: &K) -> bool { self.slot(key).is_some() }
    pub fn get(&self, key: &K) -> Option<&V> { match self.slot(key) { Some(i) => self.v[i].as_ref(), None => None } }
    pub fn get_mut(&mut self, key: &K) -> Option<&mut V> { match self.slot(key) { Some(i) => self.v[i].as_mut(), None => None } }
    pub fn insert(&mut self, key: K, val: V) -> Option<V> {
        if let Some(i) = self.slot(&key) { return self.v[i].replace(val); }
        let mut i = 0; while i < 3 { if self.k[i].is_none() { self.k[i] = Some(key); self.v[i] = Some(val); return None; } i += 1; }
        panic!("stand-in map capacity exceeded")
    }
    pub fn remove(&mut self, key: &K) -> Option<V> { match self.slot(key) { Some(i) => { self.k[i] = None; self.v[i].take() } None => None } }
    pub fn retain<F: FnMut(&K, &mut V) -> bool>(&mut self, mut f: F) { let mut i = 0; while i < 3 { if let Some(k) = self.k[i] { let keep = f(&k, self.v[i].as_mut().unwrap()); if !keep { self.k[i] = None; self.v[i] = None; } } i += 1; } }
    pub fn clear(&mut self) { self.k = [None; 3]; self.v = [None; 3]; }
    pub fn entry(&mut self, key: K) -> Entry<'_, K, V> { Entry { m: self, key } }
}
impl<'a, K: Copy + PartialEq, V: Copy> Entry<'a, K, V> {
    pub fn or_insert(self, default: V) -> &'a mut V {
        if self.m.slot(&self.key).is_none() { self.m.insert(self.key, default); }
        let i = self.m.slot(&self.key).unwrap();
        self.m.v[i].as_mut().unwrap()
    }
}
//@ extract crates/rs1090/src/decode/cpr.rs enum CPRFormat derive="Debug, PartialEq, Eq, Copy, Clone"
//@ extract crates/rs1090/src/decode/cpr.rs struct Position derive="Debug, PartialEq, Clone, Copy"
//@ extract crates/rs1090/src/decode/bds/bds05.rs enum SurveillanceStatus derive="Debug, PartialEq, Eq, Copy, Clone"
//@ extract crates/rs1090/src/decode/bds/bds05.rs enum Source derive="Debug, PartialEq, Eq, Copy, Clone"
//@ sub "\btc: u8," "pub tc: u8,"
//@ extract crates/rs1090/src/decode/bds/bds05.rs struct AirbornePosition derive="Debug, PartialEq, Copy, Clone"
//@ extract crates/rs1090/src/decode/bds/bds06.rs struct SurfacePosition derive="Debug, PartialEq, Copy, Clone"
pub enum ME { BDS05(AirbornePosition), BDS06(SurfacePosition), Other(u8) }
//@ sub "(?m)^    (\w+: )" "    pub \1"
//@ extract crates/rs1090/src/decode/cpr.rs struct AircraftState derive="Default, Clone, Copy, PartialEq, Debug"
//@ extract crates/rs1090/src/decode/cpr.rs const NZ
//@ extract crates/rs1090/src/decode/cpr.rs const CPR_MAX
//@ extract crates/rs1090/src/decode/cpr.rs fn nl
//@ extract crates/rs1090/src/decode/cpr.rs const D_LAT_EVEN
//@ extract crates/rs1090/src/decode/cpr.rs const D_LAT_ODD
//@ extract crates/rs1090/src/decode/cpr.rs fn modulo
//@ extract crates/rs1090/src/decode/cpr.rs fn airborne_position
//@ extract crates/rs1090/src/decode/cpr.rs fn airborne_position_with_reference
//@ extract crates/rs1090/src/decode/cpr.rs fn surface_position_with_reference
//@ extract crates/rs1090/src/decode/cpr.rs type UpdateIf
pub fn dist_haversine(_a: &Position, _b: &Position) -> f64 { let d: f64 = kani::any(); kani::assume(d >= 0. && d.is_finite()); d }
//@ assume-note "dist_haversine is replaced by a stand-in returning an arbitrary finite non-negative distance (sin / cos / atan2 are outside CBMC's exact float model)"
//@ extract crates/rs1090/src/decode/cpr.rs fn decode_position

// modular step: the three CPR decoders are under their own contracts (C04 / C05, unit cpr); here they are
// replaced by stand-ins returning ANY result, so the frame / write discipline is proved whatever they decode
//@ allow "kani::stub(airborne_position"
//@ allow "kani::stub(surface_position_with_reference"
pub fn any_global(_o: &AirbornePosition, _l: &AirbornePosition) -> Option<Position> { any_pos() }
pub fn any_local_airborne(_m: &AirbornePosition, _la: f64, _lo: f64) -> Option<Position> { any_pos() }
pub fn any_local_surface(_m: &SurfacePosition, _la: f64, _lo: f64) -> Option<Position> { any_pos() }
fn any_pos() -> Option<Position> { if kani::any() { let la: f64 = kani::any(); let lo: f64 = kani::any(); kani::assume(la >= -90. && la <= 90. && lo >= -180. && lo <= 180.); Some(Position { latitude: la, longitude: lo }) } else { None } }
fn any_airborne() -> AirbornePosition {
    let lat_cpr: u32 = kani::any(); let lon_cpr: u32 = kani::any(); kani::assume(lat_cpr < (1 << 17) && lon_cpr < (1 << 17));
    AirbornePosition { tc: 11, nuc_p: 7, ss: SurveillanceStatus::NoCondition, saf_or_nicb: Some(0), alt: kani::any(), source: Source::Barometric, time_sync: false,
        parity: if kani::any() { CPRFormat::Even } else { CPRFormat::Odd }, lat_cpr, lon_cpr, latitude: None, longitude: None }
}
fn any_surface() -> SurfacePosition {
    let lat_cpr: u32 = kani::any(); let lon_cpr: u32 = kani::any(); kani::assume(lat_cpr < (1 << 17) && lon_cpr < (1 << 17));
    SurfacePosition { tc: 7, nuc_p: 7, groundspeed: None, track_status: false, track: None, t: false, parity: if kani::any() { CPRFormat::Even } else { CPRFormat::Odd }, lat_cpr, lon_cpr, latitude: None, longitude: None }
}
fn any_ts() -> f64 { let t: f64 = kani::any(); kani::assume(t >= 0. && t < 4e9); t }
fn any_state() -> AircraftState {
    AircraftState { timestamp: any_ts(), pos: any_pos(), odd_ts: any_ts(), odd_msg: if kani::any() { Some(any_airborne()) } else { None }, even_ts: any_ts(), even_msg: if kani::any() { Some(any_airborne()) } else { None } }
}
/// FRAME: a report of aircraft A (airborne, surface or any other ME) processed while the cache holds an
/// ARBITRARY state of another aircraft B (and possibly a state of A): B's state is bit-identical afterwards,
/// no key other than A appears, and — no update callback being installed — the shared receiver reference
/// is unchanged.  Hence what is decoded for A cannot depend on, nor disturb, B.
//@ harness bounded="cache with one foreign entry and zero or one own entry"
#[kani::proof]
#[kani::unwind(8)]
#[kani::stub(airborne_position, any_global)]
#[kani::stub(airborne_position_with_reference, any_local_airborne)]
#[kani::stub(surface_position_with_reference, any_local_surface)]
fn c06_decode_position_touches_only_own_state() {
    let a: u32 = kani::any(); let b: u32 = kani::any(); kani::assume(a != b);
    let mut cache: BTreeMap<ICAO, AircraftState> = BTreeMap::new();
    let sb = any_state();
    cache.insert(ICAO(b), sb);
    if kani::any() { cache.insert(ICAO(a), any_state()); }
    let mut reference = any_pos();
    let ref0 = reference;
    let mut me = match kani::any::<u8>() % 3 { 0 => ME::BDS05(any_airborne()), 1 => ME::BDS06(any_surface()), _ => ME::Other(0) };
    let none: UpdateIf = None;
    decode_position(&mut me, any_ts(), &ICAO(a), &mut cache, &mut reference, &none);
    assert!(cache.len() == 2);
    assert!(cache.get(&ICAO(b)) == Some(&sb));
    assert!(cache.contains_key(&ICAO(a)));
    assert!(reference == ref0);
}
/// out-of-order guard and write discipline (airborne): a report older than the stored report of the other
/// parity leaves the message and the own state untouched; a position is written into the message only if
/// the same position is stored as the aircraft's latest position
#[kani::proof]
#[kani::unwind(8)]
#[kani::stub(airborne_position, any_global)]
#[kani::stub(airborne_position_with_reference, any_local_airborne)]
#[kani::stub(surface_position_with_reference, any_local_surface)]
fn c06_airborne_out_of_order_and_write_discipline() {
    let a: u32 = kani::any();
    let mut cache: BTreeMap<ICAO, AircraftState> = BTreeMap::new();
    let s0 = any_state();
    cache.insert(ICAO(a), s0);
    let mut reference = any_pos();
    let m0 = any_airborne();
    let mut me = ME::BDS05(m0);
    let ts = any_ts();
    let none: UpdateIf = None;
    decode_position(&mut me, ts, &ICAO(a), &mut cache, &mut reference, &none);
    let s1 = *cache.get(&ICAO(a)).unwrap();
    let paired = match m0.parity { CPRFormat::Even => s0.odd_ts, CPRFormat::Odd => s0.even_ts };
    if let ME::BDS05(m1) = &me {
        if ts - paired < 0. { assert!(*m1 == m0 && s1 == s0); }
        if m1.latitude.is_some() || m1.longitude.is_some() {
            let p = s1.pos.unwrap();
            assert!(m1.latitude == Some(p.latitude) && m1.longitude == Some(p.longitude) && s1.timestamp == ts);
        }
        assert!(m1.lat_cpr == m0.lat_cpr && m1.lon_cpr == m0.lon_cpr && m1.parity == m0.parity && m1.alt == m0.alt);
    } else { assert!(false); }
}
/// vacuity canary: must FAIL
#[kani::proof]
#[kani::unwind(8)]
#[kani::stub(airborne_position, any_global)]
#[kani::stub(airborne_position_with_reference, any_local_airborne)]
#[kani::stub(surface_position_with_reference, any_local_surface)]
fn canary_cpr_state_never_positions() {
    let mut cache: BTreeMap<ICAO, AircraftState> = BTreeMap::new();
    cache.insert(ICAO(1), any_state());
    let mut reference = any_pos();
    let mut me = ME::BDS05(any_airborne());
    let none: UpdateIf = None;
    decode_position(&mut me, any_ts(), &ICAO(1), &mut cache, &mut reference, &none);
    if let ME::BDS05(m) = &me { assert!(m.latitude.is_none()); }
}
