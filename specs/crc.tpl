//@ unit crc
//@ engine verus
// C02 — the table-driven CRC of crates/rs1090/src/decode/crc.rs equals the remainder of the
// frame modulo the Mode S generator polynomial, for every frame of every length.
// The specification (sh / feed / rem) is binary long division by
//     G(x) = x^24+x^23+...+x^12 + x^10 + x^3 + 1  = 0x1FFF409   (ICAO Annex 10 vol. IV 3.1.2.3.3.1.2)
// written independently of the table.  Verbatim code under contract: CRC_TABLE, modes_checksum.
use vstd::prelude::*;
verus! {

pub enum DekuError { Incomplete, Parse, InvalidParam, Assertion, AssertionNoStr, IdVariantNotFound, Io }

// ---------------- specification: long division, one bit at a time ---------------------------
/// one step of long division: shift the next message bit into the 24-bit remainder register and
/// subtract (xor) the generator when degree 24 is reached
pub open spec fn sh(r: u32, bit: u32) -> u32 {
    let s = (r << 1) | bit;
    if s & 0x100_0000 != 0 { s ^ 0x1FF_F409 } else { s }
}
/// feed the low n bits of v, most significant first
pub open spec fn feed(r: u32, v: u32, n: nat) -> u32 decreases n {
    if n == 0 { r } else { sh(feed(r, v >> 1, (n - 1) as nat), v & 1) }
}
/// remainder of the polynomial whose coefficients are the bits of s (first byte, MSB first) mod G
pub open spec fn polyrem(s: Seq<u8>) -> u32 decreases s.len() {
    if s.len() == 0 { 0 } else { feed(polyrem(s.drop_last()), s.last() as u32, 8) }
}
/// multiply by x^24 mod G (feed 24 zero bits)
pub open spec fn x24(r: u32) -> u32 { feed(feed(feed(r, 0, 8), 0, 8), 0, 8) }

// ---------------- algebra of the specification ---------------------------------------------
proof fn lemma_sh_lin(x: u32, y: u32, p: u32, q: u32)
    requires x < 0x100_0000, y < 0x100_0000, p <= 1, q <= 1,
    ensures sh(x ^ y, p ^ q) == sh(x, p) ^ sh(y, q), sh(x, p) < 0x100_0000, sh(y, q) < 0x100_0000, (x ^ y) < 0x100_0000, (p ^ q) <= 1,
{
    assert({
        let s = (x << 1) | p; let t = (y << 1) | q; let u = ((x ^ y) << 1) | (p ^ q);
        (if u & 0x100_0000 != 0 { u ^ 0x1FF_F409 } else { u }) ==
        (if s & 0x100_0000 != 0 { s ^ 0x1FF_F409 } else { s }) ^ (if t & 0x100_0000 != 0 { t ^ 0x1FF_F409 } else { t })
        && (if s & 0x100_0000 != 0 { s ^ 0x1FF_F409 } else { s }) < 0x100_0000
        && (if t & 0x100_0000 != 0 { t ^ 0x1FF_F409 } else { t }) < 0x100_0000 && (x ^ y) < 0x100_0000 && (p ^ q) <= 1
    }) by(bit_vector) requires x < 0x100_0000, y < 0x100_0000, p <= 1, q <= 1;
}
/// feeding is linear over GF(2): (x + y, a + b) -> feed(x, a) + feed(y, b)
proof fn lemma_feed_lin(x: u32, y: u32, a: u32, b: u32, n: nat)
    requires x < 0x100_0000, y < 0x100_0000,
    ensures feed(x ^ y, a ^ b, n) == feed(x, a, n) ^ feed(y, b, n), feed(x, a, n) < 0x100_0000, feed(y, b, n) < 0x100_0000, (x ^ y) < 0x100_0000,
    decreases n
{
    assert((x ^ y) < 0x100_0000) by(bit_vector) requires x < 0x100_0000, y < 0x100_0000;
    if n > 0 {
        lemma_feed_lin(x, y, a >> 1, b >> 1, (n - 1) as nat);
        assert((a ^ b) >> 1 == (a >> 1) ^ (b >> 1)) by(bit_vector);
        assert((a ^ b) & 1 == (a & 1) ^ (b & 1)) by(bit_vector);
        assert(a & 1 <= 1) by(bit_vector);
        assert(b & 1 <= 1) by(bit_vector);
        lemma_sh_lin(feed(x, a >> 1, (n - 1) as nat), feed(y, b >> 1, (n - 1) as nat), a & 1, b & 1);
    }
}
/// a value shorter than the register is its own remainder
proof fn lemma_feed0(v: u32, n: nat)
    requires n <= 24, v < (1u32 << (n as u32)),
    ensures feed(0, v, n) == v,
    decreases n
{
    if n > 0 {
        let m = n as u32;
        assert((v >> 1) < (1u32 << ((m - 1) as u32))) by(bit_vector) requires 1 <= m <= 24, v < (1u32 << m);
        lemma_feed0(v >> 1, (n - 1) as nat);
        assert({ let s = ((v >> 1) << 1) | (v & 1); s == v && s & 0x100_0000 == 0 }) by(bit_vector) requires 1 <= m <= 24, v < (1u32 << m);
    } else {
        assert(1u32 << 0 == 1) by(bit_vector);
    }
}
/// multiplying by x^k does not reduce while the degree stays below 24
proof fn lemma_feed_shift(r: u32, k: nat)
    requires k <= 24, r < (1u32 << ((24 - k) as u32)),
    ensures feed(r, 0, k) == r << (k as u32),
    decreases k
{
    let m = k as u32;
    if k > 0 {
        assert(r < (1u32 << ((24 - (m - 1)) as u32))) by(bit_vector) requires 1 <= m <= 24, r < (1u32 << ((24 - m) as u32));
        lemma_feed_shift(r, (k - 1) as nat);
        assert(0u32 >> 1 == 0) by(bit_vector);
        assert(0u32 & 1 == 0) by(bit_vector);
        assert({ let p = r << ((m - 1) as u32); let s = (p << 1) | 0; s == r << m && s & 0x100_0000 == 0 }) by(bit_vector) requires 1 <= m <= 24, r < (1u32 << ((24 - m) as u32));
    } else {
        assert(r << 0 == r) by(bit_vector);
    }
}
/// feed(r, b, 8) == feed(r, 0, 8) ^ b   for a byte b
proof fn lemma_feed_byte(r: u32, b: u32)
    requires r < 0x100_0000, b < 256,
    ensures feed(r, b, 8) == feed(r, 0, 8) ^ b, feed(r, 0, 8) < 0x100_0000, feed(r, b, 8) < 0x100_0000,
{
    lemma_feed_lin(r, 0, 0, b, 8);
    lemma_feed_lin(r, r, b, b, 8);
    assert(b < (1u32 << 8)) by(bit_vector) requires b < 256;
    lemma_feed0(b, 8);
    assert(r ^ 0 == r) by(bit_vector);
    assert(0 ^ b == b) by(bit_vector);
}
proof fn lemma_rem_range(s: Seq<u8>)
    ensures polyrem(s) < 0x100_0000
    decreases s.len()
{
    if s.len() > 0 {
        lemma_rem_range(s.drop_last());
        lemma_feed_byte(polyrem(s.drop_last()), s.last() as u32);
    }
}

// ---------------- the table: 256 generated obligations ---------------------------------------
//@ extract crates/rs1090/src/decode/crc.rs const CRC_TABLE
//@ repeat i 0 256
//@: proof fn table_entry_{i}() ensures CRC_TABLE[{i}] == feed({i}u32 << 16, 0, 8) { assert(CRC_TABLE[{i}] == feed({i}u32 << 16, 0, 8)) by(compute_only); }
proof fn lemma_table(i: u32)
    requires i < 256
    ensures CRC_TABLE[i as int] == feed(i << 16, 0, 8)
{
//@ repeat i 0 256
//@: if i == {i} { table_entry_{i}(); }
}

/// one iteration of the table-driven loop: with a = D(x)·x^24 mod G and next byte b,
/// ((a << 8) ^ T[b ^ (a >> 16)]) & 0xffffff  ==  (D(x)·x^8 + b)·x^24 mod G
proof fn lemma_table_step(r: u32, a: u32, b: u32)
    requires r < 0x100_0000, a == x24(r), b < 256,
    ensures
        (b ^ ((a & 0x00ff_0000) >> 16)) < 256,
        ((a << 8) ^ CRC_TABLE[(b ^ ((a & 0x00ff_0000) >> 16)) as int]) & 0x00ff_ffff == x24(feed(r, b, 8)),
        x24(feed(r, b, 8)) < 0x100_0000,
{
    // a < 2^24
    lemma_feed_byte(r, 0); let r1 = feed(r, 0, 8);
    lemma_feed_byte(r1, 0); let r2 = feed(r1, 0, 8);
    lemma_feed_byte(r2, 0);
    assert(a < 0x100_0000);
    let hi = (a & 0x00ff_0000) >> 16;
    let lo = a & 0xffff;
    assert(hi < 256 && lo < 0x1_0000 && a == (hi << 16) ^ lo && (hi << 16) < 0x100_0000 && (b ^ hi) < 256
        && (b << 16) < 0x100_0000 && ((b ^ hi) << 16) == (b << 16) ^ (hi << 16) && (a << 8) & 0x00ff_ffff == lo << 8
        && b < (1u32 << 16) && (b << 8) < (1u32 << 16) && (b << 8) << 8 == b << 16 && lo < (1u32 << 16)) by(bit_vector)
        requires a < 0x100_0000, b < 256, hi == (a & 0x00ff_0000) >> 16, lo == a & 0xffff;
    // table entries
    lemma_table(b ^ hi);
    let t = CRC_TABLE[(b ^ hi) as int];
    lemma_feed_lin(b << 16, hi << 16, 0, 0, 8);
    assert(0u32 ^ 0 == 0) by(bit_vector);
    assert(t == feed(b << 16, 0, 8) ^ feed(hi << 16, 0, 8));
    // feed(a, 0, 8) = feed(hi << 16, 0, 8) ^ (lo << 8)
    lemma_feed_lin(hi << 16, lo, 0, 0, 8);
    lemma_feed_shift(lo, 8);
    assert(feed(a, 0, 8) == feed(hi << 16, 0, 8) ^ (lo << 8));
    // x24(feed(r, b, 8)) = feed(a, 0, 8) ^ x24(b)
    lemma_feed_byte(r, b);
    assert(feed(r, b, 8) == r1 ^ b);
    lemma_feed_lin(r1, b, 0, 0, 8);            // feed(r1 ^ b, 0, 8) == r2 ^ feed(b, 0, 8)
    lemma_feed_shift(b, 8);                    // feed(b, 0, 8) == b << 8
    lemma_feed_lin(r2, b << 8, 0, 0, 8);       // feed(r2 ^ (b << 8), 0, 8) == a' ^ feed(b << 8, 0, 8)
    assert((b << 8) < 0x100_0000) by(bit_vector) requires b < 256;
    lemma_feed_shift(b << 8, 8);               // == b << 16
    lemma_feed_lin(a, b << 16, 0, 0, 8);       // feed(a ^ (b << 16), 0, 8) == feed(a,0,8) ^ feed(b<<16,0,8)
    assert(x24(feed(r, b, 8)) == feed(a, 0, 8) ^ feed(b << 16, 0, 8));
    let fa = feed(hi << 16, 0, 8); let fb = feed(b << 16, 0, 8); let l8 = lo << 8;
    assert(((l8 ^ (fb ^ fa)) & 0x00ff_ffff) == (fa ^ l8) ^ fb) by(bit_vector)
        requires fa < 0x100_0000, fb < 0x100_0000, l8 == lo << 8, lo < 0x1_0000;
    assert(((a << 8) ^ t) & 0x00ff_ffff == (((a << 8) & 0x00ff_ffff) ^ t) & 0x00ff_ffff) by(bit_vector);
    let q = feed(r, b, 8);
    lemma_feed_byte(q, 0); lemma_feed_byte(feed(q, 0, 8), 0); lemma_feed_byte(feed(feed(q, 0, 8), 0, 8), 0);
}

/// the last three bytes: polyrem(D ++ [a, b, c]) == D(x)·x^24 mod G  ^  (a<<16 ^ b<<8 ^ c)
proof fn lemma_tail(r: u32, a: u32, b: u32, c: u32)
    requires r < 0x100_0000, a < 256, b < 256, c < 256,
    ensures feed(feed(feed(r, a, 8), b, 8), c, 8) == x24(r) ^ ((a << 16) ^ (b << 8) ^ c),
{
    lemma_feed_byte(r, a); let r1 = feed(r, 0, 8);
    lemma_feed_byte(r1, 0); let r2 = feed(r1, 0, 8);
    lemma_feed_byte(r2, 0); let r3 = feed(r2, 0, 8);
    // feed(r1 ^ a, b, 8) = feed(r1 ^ a, 0, 8) ^ b = r2 ^ (a << 8) ^ b
    lemma_feed_byte(r1 ^ a, b);
    lemma_feed_lin(r1, a, 0, 0, 8);
    assert(0u32 ^ 0 == 0) by(bit_vector);
    assert(a < (1u32 << 16) && b < (1u32 << 16) && (a << 8) < (1u32 << 16) && (a << 8) < 0x100_0000 && (b < 0x100_0000)
        && ((a << 8) ^ b) < (1u32 << 16) && ((a << 8) ^ b) < 0x100_0000 && ((a << 8) ^ b) << 8 == (a << 16) ^ (b << 8)) by(bit_vector) requires a < 256, b < 256;
    lemma_feed_shift(a, 8);
    let s2 = feed(feed(r, a, 8), b, 8);
    assert(s2 == (r2 ^ (a << 8)) ^ b);
    assert((r2 ^ (a << 8)) ^ b == r2 ^ ((a << 8) ^ b)) by(bit_vector);
    lemma_feed_byte(s2, c);
    lemma_feed_lin(r2, (a << 8) ^ b, 0, 0, 8);
    lemma_feed_shift((a << 8) ^ b, 8);
    assert((r3 ^ ((a << 16) ^ (b << 8))) ^ c == r3 ^ ((a << 16) ^ (b << 8) ^ c)) by(bit_vector);
}

/// sequence form: for a frame f of >= 3 bytes with data part d = f[..n-3]
proof fn lemma_rem_tail(f: Seq<u8>)
    requires f.len() >= 3
    ensures
        polyrem(f) == x24(polyrem(f.subrange(0, f.len() - 3)))
            ^ (((f[f.len() - 3] as u32) << 16) ^ ((f[f.len() - 2] as u32) << 8) ^ (f[f.len() - 1] as u32)),
        x24(polyrem(f.subrange(0, f.len() - 3))) < 0x100_0000,
{
    let n = f.len() as int;
    let d = f.subrange(0, n - 3);
    let f1 = f.drop_last(); let f2 = f1.drop_last(); let f3 = f2.drop_last();
    assert(f3 =~= d);
    assert(polyrem(f) == feed(polyrem(f1), f.last() as u32, 8));
    assert(polyrem(f1) == feed(polyrem(f2), f1.last() as u32, 8));
    assert(polyrem(f2) == feed(polyrem(f3), f2.last() as u32, 8));
    lemma_rem_range(d);
    lemma_tail(polyrem(d), f[n - 3] as u32, f[n - 2] as u32, f[n - 1] as u32);
    lemma_feed_byte(polyrem(d), 0); lemma_feed_byte(feed(polyrem(d), 0, 8), 0); lemma_feed_byte(feed(feed(polyrem(d), 0, 8), 0, 8), 0);
}
proof fn lemma_x24_zero()
    ensures x24(0) == 0
{
    assert(0u32 < (1u32 << 8)) by(bit_vector);
    lemma_feed0(0, 8);
}

// ---------------- the code ---------------------------------------------------------------------
//@ extract crates/rs1090/src/decode/crc.rs fn modes_checksum rules=r3,r4
//@ret res
//@| ensures
//@|     ((bits / 8 < 3) || (message@.len() < bits / 8)) <==> res is Err,
//@|     // the checksum is the remainder of the whole frame (all n bytes) modulo the generator
//@|     res is Ok ==> res->Ok_0 == polyrem(message@.subrange(0, (bits / 8) as int)),
//@loop 1| invariant
//@loop 1|     n == bits / 8, 3 <= n <= message@.len(),
//@loop 1|     rem < 0x100_0000,
//@loop 1|     rem == x24(polyrem(message@.subrange(0, i as int))),
//@before "for i in 0.."| proof { lemma_x24_zero(); assert(message@.subrange(0, 0).len() == 0); }
//@before "rem = (rem << 8)"| proof { let pre = message@.subrange(0, i as int); lemma_rem_range(pre); lemma_table_step(polyrem(pre), rem, message[i as int] as u32); assert(message@.subrange(0, i + 1).drop_last() =~= pre); assert((rem & 0x00ff_0000) >> 16 < 256) by(bit_vector); }
//@before "let msg_1"| proof { let f = message@.subrange(0, n as int); lemma_rem_tail(f); assert(f.subrange(0, n - 3) =~= message@.subrange(0, n - 3)); }

// the transmitter's parity (ICAO Annex 10 3.1.2.3.3): P = D(x)·x^24 mod G over the data bytes;
// AP field = P xor address.  The receiver's checksum of the whole frame returns the address.
proof fn lemma_ap_overlay(data: Seq<u8>, addr: u32, frame: Seq<u8>)
    requires
        addr < 0x100_0000,
        frame.len() == data.len() + 3,
        frame.subrange(0, data.len() as int) =~= data,
        ((frame[data.len() as int] as u32) << 16) ^ ((frame[data.len() as int + 1] as u32) << 8) ^ (frame[data.len() as int + 2] as u32) == x24(polyrem(data)) ^ addr,
    ensures polyrem(frame) == addr
{
    lemma_rem_tail(frame);
    assert(frame.subrange(0, frame.len() - 3) =~= data);
    let p = x24(polyrem(data));
    assert(p ^ (p ^ addr) == addr) by(bit_vector);
}

// ---------------- error detection (C02: 1 bit, 2 bits, bursts up to 24 bits) ---------------------------
// A frame of n <= 16 bytes is also the n*8-bit number `value(s)`; an error pattern is a number E that is
// xor-ed onto it.  All lemmas are over the specification only (plus the proved contract of modes_checksum).
pub open spec fn value(s: Seq<u8>) -> u128 decreases s.len() {
    if s.len() == 0 { 0 } else { (value(s.drop_last()) << 8) | (s.last() as u128) }
}
/// feed the low n bits of the wide number v, most significant first
pub open spec fn feedw(r: u32, v: u128, n: nat) -> u32 decreases n {
    if n == 0 { r } else { sh(feedw(r, v >> 1, (n - 1) as nat), (v & 1) as u32) }
}
pub open spec fn xor_seq(a: Seq<u8>, b: Seq<u8>) -> Seq<u8> { Seq::new(a.len(), |i: int| a[i] ^ b[i]) }
/// x^d mod G
pub open spec fn powx(d: nat) -> u32 decreases d { if d == 0 { 1 } else { sh(powx((d - 1) as nat), 0) } }

proof fn lemma_feedw_range(r: u32, v: u128, n: nat)
    requires r < 0x100_0000
    ensures feedw(r, v, n) < 0x100_0000
    decreases n
{
    if n > 0 {
        lemma_feedw_range(r, v >> 1, (n - 1) as nat);
        assert(((v & 1) as u32) <= 1) by(bit_vector);
        lemma_sh_lin(feedw(r, v >> 1, (n - 1) as nat), 0, (v & 1) as u32, 0);
    }
}
/// feed only looks at the low k bits of its value
proof fn lemma_feed_mask(r: u32, a: u32, b: u32, k: nat)
    requires k <= 31, a & (((1u32 << (k as u32)) - 1) as u32) == b & (((1u32 << (k as u32)) - 1) as u32)
    ensures feed(r, a, k) == feed(r, b, k)
    decreases k
{
    if k > 0 {
        let kk = k as u32;
        assert((a >> 1) & (((1u32 << ((kk - 1) as u32)) - 1) as u32) == (b >> 1) & (((1u32 << ((kk - 1) as u32)) - 1) as u32) && a & 1 == b & 1) by(bit_vector)
            requires 1 <= kk <= 31, a & (((1u32 << kk) - 1) as u32) == b & (((1u32 << kk) - 1) as u32);
        lemma_feed_mask(r, a >> 1, b >> 1, (k - 1) as nat);
    }
}
/// feedw(r, w, n+k) == feed(feedw(r, w >> k, n), low byte of w, k)   for k <= 8
proof fn lemma_feedw_splitk(r: u32, w: u128, n: nat, k: nat)
    requires k <= 8
    ensures feedw(r, w, n + k) == feed(feedw(r, w >> (k as u128), n), (w & 0xff) as u32, k)
    decreases k
{
    if k == 0 {
        assert(w >> 0u128 == w) by(bit_vector);
    } else {
        let kk = k as u128;
        lemma_feedw_splitk(r, w >> 1, n, (k - 1) as nat);
        assert((w >> 1) >> ((kk - 1) as u128) == w >> kk) by(bit_vector) requires 1 <= kk <= 8;
        let x = feedw(r, w >> kk, n);
        let a = ((w & 0xff) as u32) >> 1;
        let b = ((w >> 1) & 0xff) as u32;
        let k1 = (k - 1) as u32;
        assert(a & (((1u32 << k1) - 1) as u32) == b & (((1u32 << k1) - 1) as u32)) by(bit_vector)
            requires k1 <= 7, a == ((w & 0xff) as u32) >> 1, b == ((w >> 1) & 0xff) as u32;
        lemma_feed_mask(x, a, b, (k - 1) as nat);
        assert(((w & 0xff) as u32) & 1 == ((w & 1) as u32)) by(bit_vector);
        assert((n + k - 1) as nat == n + (k - 1) as nat);
    }
}
/// feeding a byte = feeding its 8 bits as the low end of a wide number
proof fn lemma_feedw_byte(r: u32, v: u128, n: nat, b: u8)
    requires v < 0x0100_0000_0000_0000_0000_0000_0000_0000u128
    ensures feedw(r, (v << 8) | (b as u128), n + 8) == feed(feedw(r, v, n), b as u32, 8)
{
    let w = (v << 8) | (b as u128);
    assert(w >> 8u128 == v && (w & 0xff) as u32 == b as u32) by(bit_vector)
        requires w == (v << 8) | (b as u128), v < 0x0100_0000_0000_0000_0000_0000_0000_0000u128;
    lemma_feedw_splitk(r, w, n, 8);
}
/// the remainder of a frame of at most 15 bytes is the remainder of its number
proof fn lemma_rem_is_feedw(s: Seq<u8>)
    requires s.len() <= 15
    ensures polyrem(s) == feedw(0, value(s), 8 * s.len()), value(s) < (1u128 << ((8 * s.len()) as u128))
    decreases s.len()
{
    if s.len() == 0 {
        assert(1u128 << 0u128 == 1) by(bit_vector);
    } else {
        let t = s.drop_last();
        lemma_rem_is_feedw(t);
        let v = value(t); let b = s.last(); let m = (8 * t.len()) as u128;
        assert(v < 0x0100_0000_0000_0000_0000_0000_0000_0000u128 && ((v << 8) | (b as u128)) < (1u128 << ((m + 8) as u128))) by(bit_vector)
            requires v < (1u128 << m), m <= 112;
        lemma_feedw_byte(0, v, 8 * t.len(), b);
        assert(8 * s.len() == 8 * t.len() + 8);
    }
}

/// remainder is linear over GF(2): rem(a xor b) = rem(a) xor rem(b) for frames of equal length
proof fn lemma_rem_linear(a: Seq<u8>, b: Seq<u8>)
    requires a.len() == b.len()
    ensures polyrem(xor_seq(a, b)) == polyrem(a) ^ polyrem(b)
    decreases a.len()
{
    if a.len() == 0 {
        assert(0u32 ^ 0 == 0) by(bit_vector);
    } else {
        let (a1, b1) = (a.drop_last(), b.drop_last());
        lemma_rem_linear(a1, b1);
        assert(xor_seq(a, b).drop_last() =~= xor_seq(a1, b1));
        lemma_rem_range(a1); lemma_rem_range(b1);
        let (p, q) = (a.last(), b.last());
        assert(xor_seq(a, b).last() == p ^ q);
        assert(((p ^ q) as u32) == (p as u32) ^ (q as u32)) by(bit_vector);
        lemma_feed_lin(polyrem(a1), polyrem(b1), p as u32, q as u32, 8);
    }
}
/// multiplying by x keeps a non-zero remainder non-zero (G has constant term 1)
proof fn lemma_sh_nonzero(r: u32)
    requires 0 < r < 0x100_0000
    ensures sh(r, 0) != 0, sh(r, 0) < 0x100_0000, sh(r, 1) == sh(r, 0) ^ 1
{
    assert({ let s = (r << 1) | 0; let t = (r << 1) | 1;
        (if s & 0x100_0000 != 0 { s ^ 0x1FF_F409 } else { s }) != 0 && (if s & 0x100_0000 != 0 { s ^ 0x1FF_F409 } else { s }) < 0x100_0000
        && (if t & 0x100_0000 != 0 { t ^ 0x1FF_F409 } else { t }) == (if s & 0x100_0000 != 0 { s ^ 0x1FF_F409 } else { s }) ^ 1 })
        by(bit_vector) requires 0 < r < 0x100_0000;
}
/// a number below 2^24 is its own remainder however many leading zero bits are fed first
proof fn lemma_feedw_small(v: u128, n: nat)
    requires v < 0x100_0000, n <= 128, n >= 24 || v < (1u128 << (n as u128))
    ensures feedw(0, v, n) == v as u32
    decreases n
{
    if n > 0 {
        let m = n as u128;
        assert((v >> 1) < 0x100_0000 && (m - 1 >= 24 || (v >> 1) < (1u128 << ((m - 1) as u128)))) by(bit_vector)
            requires v < 0x100_0000, 1 <= m <= 128, m >= 24 || v < (1u128 << m);
        lemma_feedw_small(v >> 1, (n - 1) as nat);
        let r = (v >> 1) as u32; let bit = (v & 1) as u32;
        assert({ let s = (r << 1) | bit; s == v as u32 && s & 0x100_0000 == 0 }) by(bit_vector)
            requires v < 0x100_0000, r == (v >> 1) as u32, bit == (v & 1) as u32;
    } else {
        assert(v == 0) by(bit_vector) requires v < (1u128 << 0u128);
    }
}
/// low t bits zero: the remainder is x^t times the remainder of the rest, and stays non-zero
proof fn lemma_feedw_low_zeros(v: u128, n: nat, t: nat)
    requires t <= n, n <= 128, (v >> (t as u128)) << (t as u128) == v, feedw(0, v >> (t as u128), (n - t) as nat) != 0
    ensures feedw(0, v, n) != 0
    decreases t
{
    if t == 0 {
        assert(v >> 0u128 == v) by(bit_vector);
    } else {
        let tt = t as u128;
        let w = v >> 1;
        assert((w >> ((tt - 1) as u128)) << ((tt - 1) as u128) == w && w >> ((tt - 1) as u128) == v >> tt && v & 1 == 0) by(bit_vector)
            requires 1 <= tt <= 128, (v >> tt) << tt == v, w == v >> 1;
        lemma_feedw_low_zeros(w, (n - 1) as nat, (t - 1) as nat);
        lemma_feedw_range(0, w, (n - 1) as nat);
        lemma_sh_nonzero(feedw(0, w, (n - 1) as nat));
    }
}
/// x^d mod G as a fed number: feeding 1 followed by d zero bits
proof fn lemma_powx_is_feedw(d: nat, n: nat)
    requires d < n, n <= 128
    ensures feedw(0, 1u128 << (d as u128), n) == powx(d), 0 < powx(d) < 0x100_0000
    decreases d
{
    let dd = d as u128;
    if d == 0 {
        assert(1u128 << 0u128 == 1) by(bit_vector);
        let m = n as u128;
        assert(m >= 24 || 1u128 < (1u128 << m)) by(bit_vector) requires 1 <= m <= 128;
        lemma_feedw_small(1, n);
    } else {
        assert((1u128 << dd) >> 1 == 1u128 << ((dd - 1) as u128) && (1u128 << dd) & 1 == 0) by(bit_vector) requires 1 <= dd < 128;
        lemma_powx_is_feedw((d - 1) as nat, (n - 1) as nat);
        lemma_sh_nonzero(powx((d - 1) as nat));
    }
}
//@ repeat d 1 112
//@: proof fn powx_not_one_{d}() ensures powx({d}) != 1 { assert(powx({d}) != 1) by(compute_only); }
proof fn lemma_powx_not_one(d: nat)
    requires 1 <= d <= 111
    ensures powx(d) != 1
{
//@ repeat d 1 112
//@: if d == {d} { powx_not_one_{d}(); }
}

/// BURST: an error pattern whose set bits span at most 24 positions has a non-zero remainder
proof fn lemma_burst_nonzero(e: u128, n: nat, t: nat)
    requires n <= 128, t + 24 <= n, e != 0, (e >> (t as u128)) < 0x100_0000, (e >> (t as u128)) << (t as u128) == e
    ensures feedw(0, e, n) != 0
{
    let b = e >> (t as u128);
    let tt = t as u128;
    assert(b != 0) by(bit_vector) requires e != 0, (e >> tt) << tt == e, b == e >> tt;
    lemma_feedw_small(b, (n - t) as nat);
    assert(b as u32 != 0) by(bit_vector) requires b != 0, b < 0x100_0000;
    lemma_feedw_low_zeros(e, n, t);
}
/// TWO BITS: x^i + x^j (0 <= j < i < n <= 112) has a non-zero remainder
proof fn lemma_two_bits_nonzero(i: nat, j: nat, n: nat)
    requires j < i, i < n, n <= 112
    ensures feedw(0, (1u128 << (i as u128)) | (1u128 << (j as u128)), n) != 0
{
    let (ii, jj) = (i as u128, j as u128);
    let d = (i - j) as nat; let dd = d as u128;
    let e = (1u128 << ii) | (1u128 << jj);
    let c = (1u128 << dd) | 1;                       // x^d + 1
    assert(e >> jj == c && (e >> jj) << jj == e && c >> 1 == 1u128 << ((dd - 1) as u128) && c & 1 == 1) by(bit_vector)
        requires jj < ii, ii < 112, dd == ii - jj, e == (1u128 << ii) | (1u128 << jj), c == (1u128 << dd) | 1;
    // remainder of x^d + 1 fed with n - j bits: sh(powx(d-1), 1) = powx(d) ^ 1 != 0
    lemma_powx_is_feedw((d - 1) as nat, (n - j - 1) as nat);
    lemma_sh_nonzero(powx((d - 1) as nat));
    lemma_powx_not_one(d);
    let p = powx(d);
    assert(p ^ 1 != 0) by(bit_vector) requires p != 1;
    assert(feedw(0, c, (n - j) as nat) == sh(feedw(0, c >> 1, (n - j - 1) as nat), (c & 1) as u32));
    lemma_feedw_low_zeros(e, n, j);
}
/// C02 error detection: a valid 14-byte frame (remainder 0) to which an error pattern is xor-ed is no longer
/// valid when the pattern is a single bit, two bits anywhere, or any burst whose bits span at most 24 positions;
/// with the contract of modes_checksum (checksum == polyrem) such a frame is never accepted as DF17.
proof fn lemma_error_makes_invalid(f: Seq<u8>, e: Seq<u8>)
    requires f.len() == 14, e.len() == 14, polyrem(f) == 0, feedw(0, value(e), 112) != 0
    ensures polyrem(xor_seq(f, e)) != 0
{
    lemma_rem_linear(f, e);
    lemma_rem_is_feedw(e);
    let re = polyrem(e);
    assert(0u32 ^ re == re) by(bit_vector);
}
proof fn theorem_single_bit_error_detected(f: Seq<u8>, e: Seq<u8>, i: nat)
    requires f.len() == 14, e.len() == 14, polyrem(f) == 0, i < 112, value(e) == 1u128 << (i as u128)
    ensures polyrem(xor_seq(f, e)) != 0
{
    lemma_powx_is_feedw(i, 112);
    lemma_error_makes_invalid(f, e);
}
proof fn theorem_double_bit_error_detected(f: Seq<u8>, e: Seq<u8>, i: nat, j: nat)
    requires f.len() == 14, e.len() == 14, polyrem(f) == 0, j < i, i < 112, value(e) == (1u128 << (i as u128)) | (1u128 << (j as u128))
    ensures polyrem(xor_seq(f, e)) != 0
{
    lemma_two_bits_nonzero(i, j, 112);
    lemma_error_makes_invalid(f, e);
}
/// burst: the set bits of the error lie in positions t .. t+23 for some t
proof fn theorem_burst_error_detected(f: Seq<u8>, e: Seq<u8>, t: nat)
    requires f.len() == 14, e.len() == 14, polyrem(f) == 0, t + 24 <= 112, value(e) != 0,
        (value(e) >> (t as u128)) < 0x100_0000, (value(e) >> (t as u128)) << (t as u128) == value(e)
    ensures polyrem(xor_seq(f, e)) != 0
{
    lemma_burst_nonzero(value(e), 112, t);
    lemma_error_makes_invalid(f, e);
}

// vacuity witnesses
fn pre_sat_checksum(m: &[u8]) requires m@.len() == 14 { let _r = modes_checksum(m, 112); }

} // verus!
fn main() {}
