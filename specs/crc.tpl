//@ unit crc
//@ engine verus
// C02 — the table-driven CRC of crates/rs1090/src/decode/crc.rs equals the remainder of the
// frame modulo the Mode S generator polynomial, for every frame of every length.
// The specification (sh / feed / rem) is binary long division by
//     G(x) = x^24+x^23+...+x^12 + x^10 + x^3 + 1  = 0x1FFF409   (ICAO Annex 10 vol. IV 3.1.2.3.3.1.2)
// written independently of the table.  Verbatim code under contract: CRC_TABLE, modes_checksum.
use vstd::prelude::*;
verus! {

pub enum DekuError { Incomplete, Parse, InvalidParam, Assertion, AssertionNoStr, IdVariantNotFound, Io }

// ---------------- specification: long division, one bit at a time ---------------------------
/// one step of long division: shift the next message bit into the 24-bit remainder register and
/// subtract (xor) the generator when degree 24 is reached
pub open spec fn sh(r: u32, bit: u32) -> u32 {
    let s = (r << 1) | bit;
    if s & 0x100_0000 != 0 { s ^ 0x1FF_F409 } else { s }
}
/// feed the low n bits of v, most significant first
pub open spec fn feed(r: u32, v: u32, n: nat) -> u32 decreases n {
    if n == 0 { r } else { sh(feed(r, v >> 1, (n - 1) as nat), v & 1) }
}
/// remainder of the polynomial whose coefficients are the bits of s (first byte, MSB first) mod G
pub open spec fn polyrem(s: Seq<u8>) -> u32 decreases s.len() {
    if s.len() == 0 { 0 } else { feed(polyrem(s.drop_last()), s.last() as u32, 8) }
}
/// multiply by x^24 mod G (feed 24 zero bits)
pub open spec fn x24(r: u32) -> u32 { feed(feed(feed(r, 0, 8), 0, 8), 0, 8) }

// ---------------- algebra of the specification ---------------------------------------------
proof fn lemma_sh_lin(x: u32, y: u32, p: u32, q: u32)
    requires x < 0x100_0000, y < 0x100_0000, p <= 1, q <= 1,
    ensures sh(x ^ y, p ^ q) == sh(x, p) ^ sh(y, q), sh(x, p) < 0x100_0000, sh(y, q) < 0x100_0000, (x ^ y) < 0x100_0000, (p ^ q) <= 1,
{
    assert({
        let s = (x << 1) | p; let t = (y << 1) | q; let u = ((x ^ y) << 1) | (p ^ q);
        (if u & 0x100_0000 != 0 { u ^ 0x1FF_F409 } else { u }) ==
        (if s & 0x100_0000 != 0 { s ^ 0x1FF_F409 } else { s }) ^ (if t & 0x100_0000 != 0 { t ^ 0x1FF_F409 } else { t })
        && (if s & 0x100_0000 != 0 { s ^ 0x1FF_F409 } else { s }) < 0x100_0000
        && (if t & 0x100_0000 != 0 { t ^ 0x1FF_F409 } else { t }) < 0x100_0000 && (x ^ y) < 0x100_0000 && (p ^ q) <= 1
    }) by(bit_vector) requires x < 0x100_0000, y < 0x100_0000, p <= 1, q <= 1;
}
/// feeding is linear over GF(2): (x + y, a + b) -> feed(x, a) + feed(y, b)
proof fn lemma_feed_lin(x: u32, y: u32, a: u32, b: u32, n: nat)
    requires x < 0x100_0000, y < 0x100_0000,
    ensures feed(x ^ y, a ^ b, n) == feed(x, a, n) ^ feed(y, b, n), feed(x, a, n) < 0x100_0000, feed(y, b, n) < 0x100_0000, (x ^ y) < 0x100_0000,
    decreases n
{
    assert((x ^ y) < 0x100_0000) by(bit_vector) requires x < 0x100_0000, y < 0x100_0000;
    if n > 0 {
        lemma_feed_lin(x, y, a >> 1, b >> 1, (n - 1) as nat);
        assert((a ^ b) >> 1 == (a >> 1) ^ (b >> 1)) by(bit_vector);
        assert((a ^ b) & 1 == (a & 1) ^ (b & 1)) by(bit_vector);
        assert(a & 1 <= 1) by(bit_vector);
        assert(b & 1 <= 1) by(bit_vector);
        lemma_sh_lin(feed(x, a >> 1, (n - 1) as nat), feed(y, b >> 1, (n - 1) as nat), a & 1, b & 1);
    }
}
/// a value shorter than the register is its own remainder
proof fn lemma_feed0(v: u32, n: nat)
    requires n <= 24, v < (1u32 << (n as u32)),
    ensures feed(0, v, n) == v,
    decreases n
{
    if n > 0 {
        let m = n as u32;
        assert((v >> 1) < (1u32 << ((m - 1) as u32))) by(bit_vector) requires 1 <= m <= 24, v < (1u32 << m);
        lemma_feed0(v >> 1, (n - 1) as nat);
        assert({ let s = ((v >> 1) << 1) | (v & 1); s == v && s & 0x100_0000 == 0 }) by(bit_vector) requires 1 <= m <= 24, v < (1u32 << m);
    } else {
        assert(1u32 << 0 == 1) by(bit_vector);
    }
}
/// multiplying by x^k does not reduce while the degree stays below 24
proof fn lemma_feed_shift(r: u32, k: nat)
    requires k <= 24, r < (1u32 << ((24 - k) as u32)),
    ensures feed(r, 0, k) == r << (k as u32),
    decreases k
{
    let m = k as u32;
    if k > 0 {
        assert(r < (1u32 << ((24 - (m - 1)) as u32))) by(bit_vector) requires 1 <= m <= 24, r < (1u32 << ((24 - m) as u32));
        lemma_feed_shift(r, (k - 1) as nat);
        assert(0u32 >> 1 == 0) by(bit_vector);
        assert(0u32 & 1 == 0) by(bit_vector);
        assert({ let p = r << ((m - 1) as u32); let s = (p << 1) | 0; s == r << m && s & 0x100_0000 == 0 }) by(bit_vector) requires 1 <= m <= 24, r < (1u32 << ((24 - m) as u32));
    } else {
        assert(r << 0 == r) by(bit_vector);
    }
}
/// feed(r, b, 8) == feed(r, 0, 8) ^ b   for a byte b
proof fn lemma_feed_byte(r: u32, b: u32)
    requires r < 0x100_0000, b < 256,
    ensures feed(r, b, 8) == feed(r, 0, 8) ^ b, feed(r, 0, 8) < 0x100_0000, feed(r, b, 8) < 0x100_0000,
{
    lemma_feed_lin(r, 0, 0, b, 8);
    lemma_feed_lin(r, r, b, b, 8);
    assert(b < (1u32 << 8)) by(bit_vector) requires b < 256;
    lemma_feed0(b, 8);
    assert(r ^ 0 == r) by(bit_vector);
    assert(0 ^ b == b) by(bit_vector);
}
proof fn lemma_rem_range(s: Seq<u8>)
    ensures polyrem(s) < 0x100_0000
    decreases s.len()
{
    if s.len() > 0 {
        lemma_rem_range(s.drop_last());
        lemma_feed_byte(polyrem(s.drop_last()), s.last() as u32);
    }
}

// ---------------- the table: 256 generated obligations ---------------------------------------
//@ extract crates/rs1090/src/decode/crc.rs const CRC_TABLE
//@ repeat i 0 256
//@: proof fn table_entry_{i}() ensures CRC_TABLE[{i}] == feed({i}u32 << 16, 0, 8) { assert(CRC_TABLE[{i}] == feed({i}u32 << 16, 0, 8)) by(compute_only); }
proof fn lemma_table(i: u32)
    requires i < 256
    ensures CRC_TABLE[i as int] == feed(i << 16, 0, 8)
{
//@ repeat i 0 256
//@: if i == {i} { table_entry_{i}(); }
}

/// one iteration of the table-driven loop: with a = D(x)·x^24 mod G and next byte b,
/// ((a << 8) ^ T[b ^ (a >> 16)]) & 0xffffff  ==  (D(x)·x^8 + b)·x^24 mod G
proof fn lemma_table_step(r: u32, a: u32, b: u32)
    requires r < 0x100_0000, a == x24(r), b < 256,
    ensures
        (b ^ ((a & 0x00ff_0000) >> 16)) < 256,
        ((a << 8) ^ CRC_TABLE[(b ^ ((a & 0x00ff_0000) >> 16)) as int]) & 0x00ff_ffff == x24(feed(r, b, 8)),
        x24(feed(r, b, 8)) < 0x100_0000,
{
    // a < 2^24
    lemma_feed_byte(r, 0); let r1 = feed(r, 0, 8);
    lemma_feed_byte(r1, 0); let r2 = feed(r1, 0, 8);
    lemma_feed_byte(r2, 0);
    assert(a < 0x100_0000);
    let hi = (a & 0x00ff_0000) >> 16;
    let lo = a & 0xffff;
    assert(hi < 256 && lo < 0x1_0000 && a == (hi << 16) ^ lo && (hi << 16) < 0x100_0000 && (b ^ hi) < 256
        && (b << 16) < 0x100_0000 && ((b ^ hi) << 16) == (b << 16) ^ (hi << 16) && (a << 8) & 0x00ff_ffff == lo << 8
        && b < (1u32 << 16) && (b << 8) < (1u32 << 16) && (b << 8) << 8 == b << 16 && lo < (1u32 << 16)) by(bit_vector)
        requires a < 0x100_0000, b < 256, hi == (a & 0x00ff_0000) >> 16, lo == a & 0xffff;
    // table entries
    lemma_table(b ^ hi);
    let t = CRC_TABLE[(b ^ hi) as int];
    lemma_feed_lin(b << 16, hi << 16, 0, 0, 8);
    assert(0u32 ^ 0 == 0) by(bit_vector);
    assert(t == feed(b << 16, 0, 8) ^ feed(hi << 16, 0, 8));
    // feed(a, 0, 8) = feed(hi << 16, 0, 8) ^ (lo << 8)
    lemma_feed_lin(hi << 16, lo, 0, 0, 8);
    lemma_feed_shift(lo, 8);
    assert(feed(a, 0, 8) == feed(hi << 16, 0, 8) ^ (lo << 8));
    // x24(feed(r, b, 8)) = feed(a, 0, 8) ^ x24(b)
    lemma_feed_byte(r, b);
    assert(feed(r, b, 8) == r1 ^ b);
    lemma_feed_lin(r1, b, 0, 0, 8);            // feed(r1 ^ b, 0, 8) == r2 ^ feed(b, 0, 8)
    lemma_feed_shift(b, 8);                    // feed(b, 0, 8) == b << 8
    lemma_feed_lin(r2, b << 8, 0, 0, 8);       // feed(r2 ^ (b << 8), 0, 8) == a' ^ feed(b << 8, 0, 8)
    assert((b << 8) < 0x100_0000) by(bit_vector) requires b < 256;
    lemma_feed_shift(b << 8, 8);               // == b << 16
    lemma_feed_lin(a, b << 16, 0, 0, 8);       // feed(a ^ (b << 16), 0, 8) == feed(a,0,8) ^ feed(b<<16,0,8)
    assert(x24(feed(r, b, 8)) == feed(a, 0, 8) ^ feed(b << 16, 0, 8));
    let fa = feed(hi << 16, 0, 8); let fb = feed(b << 16, 0, 8); let l8 = lo << 8;
    assert(((l8 ^ (fb ^ fa)) & 0x00ff_ffff) == (fa ^ l8) ^ fb) by(bit_vector)
        requires fa < 0x100_0000, fb < 0x100_0000, l8 == lo << 8, lo < 0x1_0000;
    assert(((a << 8) ^ t) & 0x00ff_ffff == (((a << 8) & 0x00ff_ffff) ^ t) & 0x00ff_ffff) by(bit_vector);
    let q = feed(r, b, 8);
    lemma_feed_byte(q, 0); lemma_feed_byte(feed(q, 0, 8), 0); lemma_feed_byte(feed(feed(q, 0, 8), 0, 8), 0);
}

/// the last three bytes: polyrem(D ++ [a, b, c]) == D(x)·x^24 mod G  ^  (a<<16 ^ b<<8 ^ c)
proof fn lemma_tail(r: u32, a: u32, b: u32, c: u32)
    requires r < 0x100_0000, a < 256, b < 256, c < 256,
    ensures feed(feed(feed(r, a, 8), b, 8), c, 8) == x24(r) ^ ((a << 16) ^ (b << 8) ^ c),
{
    lemma_feed_byte(r, a); let r1 = feed(r, 0, 8);
    lemma_feed_byte(r1, 0); let r2 = feed(r1, 0, 8);
    lemma_feed_byte(r2, 0); let r3 = feed(r2, 0, 8);
    // feed(r1 ^ a, b, 8) = feed(r1 ^ a, 0, 8) ^ b = r2 ^ (a << 8) ^ b
    lemma_feed_byte(r1 ^ a, b);
    lemma_feed_lin(r1, a, 0, 0, 8);
    assert(0u32 ^ 0 == 0) by(bit_vector);
    assert(a < (1u32 << 16) && b < (1u32 << 16) && (a << 8) < (1u32 << 16) && (a << 8) < 0x100_0000 && (b < 0x100_0000)
        && ((a << 8) ^ b) < (1u32 << 16) && ((a << 8) ^ b) < 0x100_0000 && ((a << 8) ^ b) << 8 == (a << 16) ^ (b << 8)) by(bit_vector) requires a < 256, b < 256;
    lemma_feed_shift(a, 8);
    let s2 = feed(feed(r, a, 8), b, 8);
    assert(s2 == (r2 ^ (a << 8)) ^ b);
    assert((r2 ^ (a << 8)) ^ b == r2 ^ ((a << 8) ^ b)) by(bit_vector);
    lemma_feed_byte(s2, c);
    lemma_feed_lin(r2, (a << 8) ^ b, 0, 0, 8);
    lemma_feed_shift((a << 8) ^ b, 8);
    assert((r3 ^ ((a << 16) ^ (b << 8))) ^ c == r3 ^ ((a << 16) ^ (b << 8) ^ c)) by(bit_vector);
}

/// sequence form: for a frame f of >= 3 bytes with data part d = f[..n-3]
proof fn lemma_rem_tail(f: Seq<u8>)
    requires f.len() >= 3
    ensures
        polyrem(f) == x24(polyrem(f.subrange(0, f.len() - 3)))
            ^ (((f[f.len() - 3] as u32) << 16) ^ ((f[f.len() - 2] as u32) << 8) ^ (f[f.len() - 1] as u32)),
        x24(polyrem(f.subrange(0, f.len() - 3))) < 0x100_0000,
{
    let n = f.len() as int;
    let d = f.subrange(0, n - 3);
    let f1 = f.drop_last(); let f2 = f1.drop_last(); let f3 = f2.drop_last();
    assert(f3 =~= d);
    assert(polyrem(f) == feed(polyrem(f1), f.last() as u32, 8));
    assert(polyrem(f1) == feed(polyrem(f2), f1.last() as u32, 8));
    assert(polyrem(f2) == feed(polyrem(f3), f2.last() as u32, 8));
    lemma_rem_range(d);
    lemma_tail(polyrem(d), f[n - 3] as u32, f[n - 2] as u32, f[n - 1] as u32);
    lemma_feed_byte(polyrem(d), 0); lemma_feed_byte(feed(polyrem(d), 0, 8), 0); lemma_feed_byte(feed(feed(polyrem(d), 0, 8), 0, 8), 0);
}
proof fn lemma_x24_zero()
    ensures x24(0) == 0
{
    assert(0u32 < (1u32 << 8)) by(bit_vector);
    lemma_feed0(0, 8);
}

// ---------------- the code ---------------------------------------------------------------------
//@ extract crates/rs1090/src/decode/crc.rs fn modes_checksum rules=r3,r4
//@ret res
//@| ensures
//@|     ((bits / 8 < 3) || (message@.len() < bits / 8)) <==> res is Err,
//@|     // the checksum is the remainder of the whole frame (all n bytes) modulo the generator
//@|     res is Ok ==> res->Ok_0 == polyrem(message@.subrange(0, (bits / 8) as int)),
//@loop 1| invariant
//@loop 1|     n == bits / 8, 3 <= n <= message@.len(),
//@loop 1|     rem < 0x100_0000,
//@loop 1|     rem == x24(polyrem(message@.subrange(0, i as int))),
//@before "for i in 0.."| proof { lemma_x24_zero(); assert(message@.subrange(0, 0).len() == 0); }
//@before "rem = (rem << 8)"| proof { let pre = message@.subrange(0, i as int); lemma_rem_range(pre); lemma_table_step(polyrem(pre), rem, message[i as int] as u32); assert(message@.subrange(0, i + 1).drop_last() =~= pre); assert((rem & 0x00ff_0000) >> 16 < 256) by(bit_vector); }
//@before "let msg_1"| proof { let f = message@.subrange(0, n as int); lemma_rem_tail(f); assert(f.subrange(0, n - 3) =~= message@.subrange(0, n - 3)); }

// the transmitter's parity (ICAO Annex 10 3.1.2.3.3): P = D(x)·x^24 mod G over the data bytes;
// AP field = P xor address.  The receiver's checksum of the whole frame returns the address.
proof fn lemma_ap_overlay(data: Seq<u8>, addr: u32, frame: Seq<u8>)
    requires
        addr < 0x100_0000,
        frame.len() == data.len() + 3,
        frame.subrange(0, data.len() as int) =~= data,
        ((frame[data.len() as int] as u32) << 16) ^ ((frame[data.len() as int + 1] as u32) << 8) ^ (frame[data.len() as int + 2] as u32) == x24(polyrem(data)) ^ addr,
    ensures polyrem(frame) == addr
{
    lemma_rem_tail(frame);
    assert(frame.subrange(0, frame.len() - 3) =~= data);
    let p = x24(polyrem(data));
    assert(p ^ (p ^ addr) == addr) by(bit_vector);
}

// vacuity witnesses
fn pre_sat_checksum(m: &[u8]) requires m@.len() == 14 { let _r = modes_checksum(m, 112); }

} // verus!
fn main() {}
