//@ unit f_adsb
//@ engine kani
// ADS-B registers BDS 0,5 / 0,6 / 0,9 / 6,2: every hand-written reader, map closure and default
// expression, verbatim.  C01 totality on the whole domain the reader contract admits; C03 values
// per DO-260B (2.2.3.2.3-2.2.3.2.7); C08 ranges from the property text.
//@ include _prelude_kani.rs
#[derive(Clone, Copy, PartialEq, Debug, kani::Arbitrary)]
pub enum Sign { Positive = 0, Negative = 1 }
//@ extract crates/rs1090/src/decode/bds/bds09.rs fn value impl=Sign wrap
#[derive(Clone, Copy, PartialEq, Debug)]
pub enum Source { Barometric = 0, Gnss = 1 }

// ---- BDS 0,5 ------------------------------------------------------------------------------------
//@ extract crates/rs1090/src/decode/bds/bds05.rs closure AirbornePosition.nuc_p default name=B05__nucp sig="(tc: &u8) -> u8"
//@ extract crates/rs1090/src/decode/bds/bds05.rs closure AirbornePosition.saf_or_nicb map name=B05__nicb sig="(v: u8, tc: &u8) -> Result<Option<u8>, DekuError>"
//@ extract crates/rs1090/src/decode/bds/bds05.rs fn read_source
//@ extract crates/rs1090/src/decode/bds/bds05.rs closure AirbornePosition.source reader name=B05__source sig="(tc: &u8) -> Result<Source, DekuError>"
// ---- BDS 0,6 ------------------------------------------------------------------------------------
//@ extract crates/rs1090/src/decode/bds/bds06.rs closure SurfacePosition.nuc_p default name=B06__nucp sig="(tc: u8) -> u8"
//@ extract crates/rs1090/src/decode/bds/bds06.rs fn read_groundspeed as=b06_read_groundspeed
//@ sub "read_groundspeed" "b06_read_groundspeed"
//@ extract crates/rs1090/src/decode/bds/bds06.rs closure SurfacePosition.groundspeed reader name=B06__gs sig="(reader: &mut BitReader) -> Result<Option<f64>, DekuError>"
//@ extract crates/rs1090/src/decode/bds/bds06.rs closure SurfacePosition.track map name=B06__track sig="(value: u8, track_status: &bool) -> Result<Option<f64>, DekuError>"
// ---- BDS 0,9 ------------------------------------------------------------------------------------
//@ extract crates/rs1090/src/decode/bds/bds09.rs closure AirborneVelocity.vertical_rate map name=B09__vrate sig="(v: u16, vrate_sign: &Sign) -> Result<Option<i16>, DekuError>"
//@ extract crates/rs1090/src/decode/bds/bds09.rs fn read_geobaro
//@ extract crates/rs1090/src/decode/bds/bds09.rs closure AirborneVelocity.geo_minus_baro reader name=B09__geobaro sig="(reader: &mut BitReader, vrate_sign: &Sign, gnss_sign: &Sign) -> Result<Option<i16>, DekuError>"
//@ extract crates/rs1090/src/decode/bds/bds09.rs closure GroundSpeedDecoding.ew_vel map name=B09__ew sig="(val: u16, ew_sign: &Sign) -> Result<f64, DekuError>"
//@ extract crates/rs1090/src/decode/bds/bds09.rs closure GroundSpeedDecoding.ns_vel map name=B09__ns sig="(val: u16, ew_sign: &Sign, ew_vel: &f64, ns_sign: &Sign) -> Result<f64, DekuError>"
//@ extract crates/rs1090/src/decode/bds/bds09.rs closure AirspeedSubsonicDecoding.heading map name=B09__hdg3 sig="(val: u16, status_heading: &bool) -> Result<Option<f64>, DekuError>"
//@ extract crates/rs1090/src/decode/bds/bds09.rs closure AirspeedSubsonicDecoding.airspeed map name=B09__as3 sig="(value: u16) -> Result<Option<u16>, DekuError>"
//@ extract crates/rs1090/src/decode/bds/bds09.rs closure AirspeedSupersonicDecoding.heading map name=B09__hdg4 sig="(val: u16, status_heading: &bool) -> Result<Option<f32>, DekuError>"
//@ extract crates/rs1090/src/decode/bds/bds09.rs closure AirspeedSupersonicDecoding.airspeed map name=B09__as4 sig="(value: u16) -> Result<Option<u16>, DekuError>"
// groundspeed / track defaults call libm::hypot / libm::atan2, whose values are outside CBMC's exact
// float model: NAMED ASSUMPTION (stand-in below): atan2 returns any non-NaN value in [-pi, pi] with the
// sign conventions of IEEE 754 (result has the sign of y; +-0 for y = +-0 and x > 0); hypot(a, b) for
// finite non-negative a, b returns a finite value >= max(a, b).
mod libm {
    pub fn atan2(y: f64, x: f64) -> f64 {
        let r: f64 = kani::any();
        kani::assume(r >= -core::f64::consts::PI && r <= core::f64::consts::PI);
        if y == 0. { kani::assume(if x > 0. || (x == 0. && x.is_sign_positive()) { r == 0. } else { r == core::f64::consts::PI || r == -core::f64::consts::PI }); }
        if y > 0. { kani::assume(r > 0.); }
        if y < 0. { kani::assume(r < 0.); }
        kani::assume(r.is_sign_negative() == y.is_sign_negative());
        // accuracy: |atan2(y, x)| >= |y| / (|x| + |y|) mathematically (atan t >= t/(1+t)); a faithful libm stays within 1 %
        if y != 0. && x.is_finite() && y.is_finite() { kani::assume(r.abs() >= 0.99 * (y.abs() / (x.abs() + y.abs()))); }
        r
    }
    pub fn hypot(a: f64, b: f64) -> f64 {
        let r: f64 = kani::any();
        kani::assume(r.is_finite() && r >= a && r >= b);
        r
    }
}
//@ allow "kani::assume(r"
//@ assume-note "libm::atan2 is replaced by a stand-in returning any value in [-pi, pi] with IEEE sign conventions and |atan2(y,x)| >= 0.99*|y|/(|x|+|y|); libm::hypot by any finite value >= both arguments (CBMC has no exact model of these functions)"
//@ extract crates/rs1090/src/decode/bds/bds09.rs closure GroundSpeedDecoding.groundspeed default name=B09__gs sig="(ew_vel: &f64, ns_vel: &f64) -> f64"
//@ extract crates/rs1090/src/decode/bds/bds09.rs closure GroundSpeedDecoding.track default name=B09__trk sig="(ew_vel: &f64, ns_vel: &f64) -> f64"
// ---- BDS 6,2 ------------------------------------------------------------------------------------
//@ extract crates/rs1090/src/decode/bds/bds62.rs closure TargetStateAndStatusInformation.selected_altitude map name=B62__selalt sig="(altitude: u16) -> Result<Option<u16>, DekuError>"
//@ extract crates/rs1090/src/decode/bds/bds62.rs closure TargetStateAndStatusInformation.barometric_setting map name=B62__qnh sig="(qnh: u32) -> Result<Option<f32>, DekuError>"
//@ extract crates/rs1090/src/decode/bds/bds62.rs closure TargetStateAndStatusInformation.selected_heading map name=B62__hdg sig="(heading: u16, heading_status: &bool) -> Result<Option<f32>, DekuError>"
//@ extract crates/rs1090/src/decode/bds/bds62.rs closure TargetStateAndStatusInformation.autopilot map name=B62__ap sig="(val: bool, mode_status: &bool) -> Result<Option<bool>, DekuError>"
//@ extract crates/rs1090/src/decode/bds/bds62.rs closure TargetStateAndStatusInformation.lnav_mode map name=B62__lnav sig="(val: bool, mode_status: &bool) -> Result<Option<bool>, DekuError>"

// ================= BDS 0,5 =========================================================================
/// NUCp from the type code: derive glue guarantees 5 bits; TC 9..=18 -> 18-tc, 20/21 -> 29-tc (DO-260B
/// table N-4), 0 otherwise; no underflow for ANY 5-bit tc (the Comm-B path tries this reader on arbitrary bits)
#[kani::proof]
fn c01c03_bds05_nucp() {
    let tc: u8 = kani::any(); kani::assume(tc < 32);
    let n = B05__nucp(&tc);
    if tc >= 9 && tc <= 18 { assert!(n == 18 - tc); }
    if tc == 20 || tc == 21 { assert!(n == 29 - tc); }
    assert!(n <= 18);
}
#[kani::proof]
fn c01c03_bds05_nicb_and_source() {
    let tc: u8 = kani::any(); kani::assume(tc < 32);
    let v: u8 = kani::any(); kani::assume(v < 2);
    let r = B05__nicb(v, &tc).unwrap();
    assert!(r == if tc < 19 { Some(v) } else { None });
    let s = B05__source(&tc).unwrap();
    if tc >= 9 && tc <= 18 { assert!(s == Source::Barometric); }
    if tc >= 20 && tc <= 22 { assert!(s == Source::Gnss); }
}
// ================= BDS 0,6 =========================================================================
/// NUCp = 14 - tc: the derive selects this struct only for TC 5..=8 (trusted glue) and the Comm-B path
/// never calls it; so tc in 5..=8 is the precondition. Result 9..=6.
#[kani::proof]
fn c01c03_bds06_nucp() {
    let tc: u8 = kani::any(); kani::assume(tc >= 5 && tc <= 8);
    assert!(B06__nucp(tc) == 14 - tc);
}
/// surface movement (DO-260B table 2-15 / A-2.3.3.1): piecewise-linear, 7 bits
fn movement_std(m: u64) -> Option<f64> {
    match m {
        0 => None,
        1 => Some(0.),
        2..=8 => Some(0.125 * (m - 1) as f64),            // 0.125 kt steps up to 1 kt
        9..=12 => Some(1. + 0.25 * (m - 9) as f64),       // 0.25 kt steps up to 2 kt
        13..=38 => Some(2. + 0.5 * (m - 13) as f64),      // 0.5 kt steps up to 15 kt
        39..=93 => Some(15. + (m - 39) as f64),           // 1 kt steps up to 70 kt
        94..=108 => Some(70. + 2. * (m - 94) as f64),     // 2 kt steps up to 100 kt
        109..=123 => Some(100. + 5. * (m - 109) as f64),  // 5 kt steps up to 175 kt
        124 => Some(175.),
        _ => None,                                        // reserved
    }
}
#[kani::proof]
fn c01c03c08_bds06_movement() {
    let mut r = BitReader::any(); let mut p = r.fork();
    let res = B06__gs(&mut r);
    let m = field!(p, res, 7);
    let x = res.unwrap();
    assert!(r.bits_read == p.bits_read);
    assert!(x == movement_std(m));
    if let Some(v) = x { assert!(v.is_finite() && v >= 0. && v <= 175.); }
}
#[kani::proof]
fn c01c03c08_bds06_track() {
    let v: u8 = kani::any(); kani::assume(v < 128);
    let st: bool = kani::any();
    let r = B06__track(v, &st).unwrap();
    match r {
        Some(x) => { assert!(st); assert!(x == v as f64 * (360. / 128.)); assert!(x >= 0. && x < 360. && x.is_finite()); }
        None => assert!(!st),
    }
}
// ================= BDS 0,9 =========================================================================
/// vertical rate: sign, 9 bits; 0 = no information, else +-(v-1)*64 ft/min (DO-260B 2.2.3.2.6.1.11)
#[kani::proof]
fn c01c03c08_bds09_vertical_rate() {
    let v: u16 = kani::any(); kani::assume(v < 512);
    let s: Sign = kani::any();
    let r = B09__vrate(v, &s).unwrap();
    match r {
        None => assert!(v == 0),
        Some(x) => {
            assert!(v != 0);
            let std = (v as i32 - 1) * 64 * (if s == Sign::Negative { -1 } else { 1 });
            assert!(x as i32 == std);
            assert!(x % 64 == 0 && x as i32 >= -32640 && x as i32 <= 32640);
        }
    }
}
/// GNSS - baro difference: sign (the GNSS sign bit, not the vertical-rate sign), 7 bits; 0 = no
/// information, 1 = 0 ft, n = 25*(n-1) ft, 127 = beyond range (DO-260B 2.2.3.2.6.1.15)
#[kani::proof]
fn c01c03_bds09_geo_minus_baro() {
    let mut r = BitReader::any(); let mut p = r.fork();
    let vs: Sign = kani::any(); let gs: Sign = kani::any();
    let res = B09__geobaro(&mut r, &vs, &gs);
    let n = field!(p, res, 7);
    let x = res.unwrap();
    assert!(r.bits_read == p.bits_read);
    if n == 0 { assert!(x.is_none()); }
    if n >= 1 && n <= 126 {
        let std = 25 * (n as i32 - 1) * (if gs == Sign::Negative { -1 } else { 1 });
        assert!(x.map(|v| v as i32) == Some(std));
    }
    if let Some(v) = x { assert!(v % 25 == 0 && v >= -3150 && v <= 3150); }
}
/// subtype 1 velocity components: sign, 10 bits, 0 = no information, else (v-1) kt, signed
/// (east / north positive)
#[kani::proof]
fn c01c03c08_bds09_velocity_components() {
    let v: u16 = kani::any(); kani::assume(v < 1024);
    let s: Sign = kani::any(); let s2: Sign = kani::any(); let other: f64 = kani::any();
    let ew = B09__ew(v, &s).unwrap();
    let ns = B09__ns(v, &s2, &other, &s).unwrap();
    if v >= 1 {
        let std = (v as i32 - 1) as f64 * (if s == Sign::Negative { -1. } else { 1. });
        assert!(ew == std && ns == std);
    }
    assert!(ew.is_finite() && ew.abs() <= 1022. && ns.is_finite() && ns.abs() <= 1022.);
}
/// ground speed = hypot(|ew|, |ns|): finite and non-negative for all component pairs (under the named
/// assumption on hypot); track in [0, 360) for all component pairs (under the named assumption on atan2)
#[kani::proof]
fn c01c08_bds09_groundspeed_track() {
    let a: i16 = kani::any(); let b: i16 = kani::any();
    kani::assume(a >= -1022 && a <= 1022 && b >= -1022 && b <= 1022);
    let (ew, ns) = (a as f64, b as f64);
    let g = B09__gs(&ew, &ns);
    assert!(g.is_finite() && g >= 0.);
    let t = B09__trk(&ew, &ns);
    assert!(t.is_finite() && t >= 0. && t < 360.);
}
/// subtypes 3 / 4: heading = code*360/1024 when the status bit is set; airspeed 0 = no information,
/// else (v-1) kt resp. 4*(v-1) kt
#[kani::proof]
fn c01c03c08_bds09_heading_airspeed() {
    let v: u16 = kani::any(); kani::assume(v < 1024);
    let st: bool = kani::any();
    let h3 = B09__hdg3(v, &st).unwrap();
    let h4 = B09__hdg4(v, &st).unwrap();
    match h3 { Some(x) => { assert!(st && x == v as f64 * (360. / 1024.)); assert!(x >= 0. && x < 360. && x.is_finite()); } None => assert!(!st) }
    match h4 { Some(x) => { assert!(st && x == v as f32 * (360. / 1024.)); assert!(x >= 0. && x < 360. && x.is_finite()); } None => assert!(!st) }
    let a3 = B09__as3(v).unwrap();
    let a4 = B09__as4(v).unwrap();
    assert!(a3 == if v == 0 { None } else { Some(v - 1) });
    assert!(a4 == if v == 0 { None } else { Some(4 * (v - 1)) });
}
// ================= BDS 6,2 =========================================================================
/// selected altitude: 11 bits, 0 = no data, n = (n-1)*32 ft (DO-260B 2.2.3.2.7.1.3.4); pilots select
/// on the 100 ft grid, the transmitter rounds to the nearest 32 ft: whichever way it rounds, the
/// 100 ft value must come back; every result is a multiple of 100 not above 65 500
#[kani::proof]
fn c01c03c08_bds62_selected_altitude() {
    let n: u16 = kani::any(); kani::assume(n < 2048);
    let r = B62__selalt(n).unwrap();
    if n == 0 { assert!(r.is_none()); }
    let m: i32 = kani::any(); kani::assume(m >= 0 && m <= 655);
    if n >= 1 && (32 * (n as i32 - 1) - 100 * m).abs() <= 16 { assert!(r.map(|x| x as i32) == Some(100 * m)); }
    if let Some(x) = r { assert!(x % 100 == 0 && x <= 65500 && (x as i32 - 32 * (n as i32 - 1)).abs() <= 84); }
}
/// QNH: 9 bits, 0 = no data, n = 800 + 0.8*(n-1) hPa; selected heading: 9 bits * 180/256 in [0, 360)
#[kani::proof]
fn c01c03c08_bds62_qnh_heading_modes() {
    let q: u32 = kani::any(); kani::assume(q < 512);
    let r = B62__qnh(q).unwrap();
    match r { None => assert!(q == 0), Some(x) => { assert!(q != 0); assert!((x as f64 - (800. + 0.8 * (q as f64 - 1.))).abs() < 1e-3); assert!(x >= 800. && x <= 1208.81 && x.is_finite()); } }
    let h: u16 = kani::any(); kani::assume(h < 512);
    let st: bool = kani::any();
    match B62__hdg(h, &st).unwrap() { None => assert!(!st), Some(x) => { assert!(st && x == h as f32 * (180. / 256.)); assert!(x >= 0. && x < 360. && x.is_finite()); } }
    let val: bool = kani::any(); let ms: bool = kani::any();
    assert!(B62__ap(val, &ms).unwrap() == if ms { Some(val) } else { None });
    assert!(B62__lnav(val, &ms).unwrap() == if ms { Some(val) } else { None });
}

/// vacuity canary: must FAIL
#[kani::proof]
fn canary_adsb_vertical_rate_positive() {
    let v: u16 = kani::any(); kani::assume(v < 512);
    let s: Sign = kani::any();
    if let Some(x) = B09__vrate(v, &s).unwrap() { assert!(x >= 0); }
}
