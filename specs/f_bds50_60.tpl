//@ unit f_bds50_60
//@ engine kani
// BDS 5,0 (track and turn report) and BDS 6,0 (heading and speed report): every field reader
// and the call expression of every `reader = "..."` attribute, verbatim.
// Contracts (C01 totality, C03 value per ICAO Doc 9871 table A-2-80 / A-2-96, C08 ranges from the
// property text).  A Comm-B register reader may refuse a payload (the register hypothesis is
// dropped); when it reports a value the value must be the standard's, and it must not refuse the
// ordinary flight envelope stated in each harness (must-accept window, chosen well inside any
// plausibility filter: it is the specification's, not the code's).
//@ include _prelude_kani.rs
//@ extract crates/rs1090/src/decode/bds/bds50.rs fn read_roll
//@ extract crates/rs1090/src/decode/bds/bds50.rs fn read_track
//@ extract crates/rs1090/src/decode/bds/bds50.rs fn read_groundspeed
//@ extract crates/rs1090/src/decode/bds/bds50.rs fn read_rate
//@ extract crates/rs1090/src/decode/bds/bds50.rs fn read_tas
//@ extract crates/rs1090/src/decode/bds/bds50.rs closure TrackAndTurnReport.roll_angle reader name=B50__roll sig="(reader: &mut BitReader) -> Result<Option<f64>, DekuError>"
//@ extract crates/rs1090/src/decode/bds/bds50.rs closure TrackAndTurnReport.track_angle reader name=B50__track sig="(reader: &mut BitReader) -> Result<Option<f64>, DekuError>"
//@ extract crates/rs1090/src/decode/bds/bds50.rs closure TrackAndTurnReport.groundspeed reader name=B50__gs sig="(reader: &mut BitReader) -> Result<Option<u16>, DekuError>"
//@ extract crates/rs1090/src/decode/bds/bds50.rs closure TrackAndTurnReport.track_rate reader name=B50__rate sig="(reader: &mut BitReader, roll_angle: &Option<f64>, track_angle: &Option<f64>, groundspeed: &Option<u16>) -> Result<Option<f64>, DekuError>"
//@ extract crates/rs1090/src/decode/bds/bds50.rs closure TrackAndTurnReport.true_airspeed reader name=B50__tas sig="(reader: &mut BitReader, roll_angle: &Option<f64>, track_angle: &Option<f64>, groundspeed: &Option<u16>, track_rate: &Option<f64>) -> Result<Option<u16>, DekuError>"
mod b60 {
    use super::*;
//@ extract crates/rs1090/src/decode/bds/bds60.rs fn read_heading
//@ extract crates/rs1090/src/decode/bds/bds60.rs fn read_ias
//@ extract crates/rs1090/src/decode/bds/bds60.rs fn read_mach
//@ extract crates/rs1090/src/decode/bds/bds60.rs fn read_vertical
//@ extract crates/rs1090/src/decode/bds/bds60.rs closure HeadingAndSpeedReport.magnetic_heading reader name=B60__heading sig="(reader: &mut BitReader) -> Result<Option<f64>, DekuError>"
//@ extract crates/rs1090/src/decode/bds/bds60.rs closure HeadingAndSpeedReport.indicated_airspeed reader name=B60__ias sig="(reader: &mut BitReader) -> Result<Option<u16>, DekuError>"
//@ extract crates/rs1090/src/decode/bds/bds60.rs closure HeadingAndSpeedReport.mach_number reader name=B60__mach sig="(reader: &mut BitReader, magnetic_heading: &Option<f64>, indicated_airspeed: &Option<u16>) -> Result<Option<f64>, DekuError>"
//@ extract crates/rs1090/src/decode/bds/bds60.rs closure HeadingAndSpeedReport.barometric_altitude_rate reader name=B60__vbaro sig="(reader: &mut BitReader) -> Result<Option<i16>, DekuError>"
//@ extract crates/rs1090/src/decode/bds/bds60.rs closure HeadingAndSpeedReport.inertial_vertical_velocity reader name=B60__vinert sig="(reader: &mut BitReader) -> Result<Option<i16>, DekuError>"
    pub fn heading(r: &mut BitReader) -> Result<Option<f64>, DekuError> { B60__heading(r) }
    pub fn ias(r: &mut BitReader) -> Result<Option<u16>, DekuError> { B60__ias(r) }
    pub fn mach(r: &mut BitReader, h: &Option<f64>, i: &Option<u16>) -> Result<Option<f64>, DekuError> { B60__mach(r, h, i) }
    pub fn vbaro(r: &mut BitReader) -> Result<Option<i16>, DekuError> { B60__vbaro(r) }
    pub fn vinert(r: &mut BitReader) -> Result<Option<i16>, DekuError> { B60__vinert(r) }
}

// ---------------- BDS 5,0 -----------------------------------------------------------------------
/// roll angle: status, sign, 9 bits, LSB 45/256 deg; C08: within +-90 deg
#[kani::proof]
fn c01c03c08_bds50_roll() {
    let mut r = BitReader::any(); let mut p = r.fork();
    let res = B50__roll(&mut r);
    let (st, sg, v) = (field!(p, res, 1), field!(p, res, 1), field!(p, res, 9));
    let k = twos(sg, v, 9);
    match res {
        Ok(Some(x)) => {
            assert!(st == 1 && r.bits_read == p.bits_read);
            assert!(x == k as f64 * (45. / 256.));
            assert!(x.is_finite() && x >= -90. && x <= 90.);
        }
        Ok(None) => assert!(st == 0 && r.bits_read == p.bits_read),
        Err(_) => assert!(!(st == 1 && k >= -170 && k <= 170)),   // must accept |roll| <= 29.9 deg
    }
    kani::cover!(matches!(res, Ok(Some(x)) if x < 0.));
}
/// true track: status, sign, 10 bits, LSB 90/512 deg, reported in [0, 360)
#[kani::proof]
fn c01c03c08_bds50_track() {
    let mut r = BitReader::any(); let mut p = r.fork();
    let res = B50__track(&mut r);
    let (st, sg, v) = (field!(p, res, 1), field!(p, res, 1), field!(p, res, 10));
    let k = twos(sg, v, 10);
    match res {
        Ok(Some(x)) => {
            assert!(st == 1 && r.bits_read == p.bits_read);
            let std = if k < 0 { k + 2048 } else { k } as f64 * (90. / 512.);
            assert!(x == std);
            assert!(x.is_finite() && x >= 0. && x < 360.);
        }
        Ok(None) => assert!(st == 0 && r.bits_read == p.bits_read),
        Err(_) => assert!(st == 0),                                // every track with status 1 is accepted
    }
    kani::cover!(matches!(res, Ok(Some(x)) if x > 359.));
}
/// ground speed: status, 10 bits, LSB 2 kt
#[kani::proof]
fn c01c03c08_bds50_groundspeed() {
    let mut r = BitReader::any(); let mut p = r.fork();
    let res = B50__gs(&mut r);
    let (st, v) = (field!(p, res, 1), field!(p, res, 10));
    match res {
        Ok(Some(x)) => { assert!(st == 1 && r.bits_read == p.bits_read); assert!(x as u64 == 2 * v); }
        Ok(None) => assert!(st == 0 && r.bits_read == p.bits_read),
        Err(_) => assert!(!(st == 1 && 2 * v <= 550)),             // must accept up to 550 kt
    }
    kani::cover!(matches!(res, Ok(Some(_))));
}
/// track angle rate: status, sign, 9 bits, LSB 8/256 deg/s; all-ones magnitude = not available;
/// cross-check is against the ROLL angle of the same register (signs agree)
#[kani::proof]
fn c01c03c08_bds50_track_rate() {
    let mut r = BitReader::any(); let mut p = r.fork();
    let roll: Option<f64> = kani::any();
    kani::assume(match roll { Some(x) => x >= -90. && x <= 90., None => true });   // what B50__roll can produce
    let track: Option<f64> = kani::any();
    kani::assume(match track { Some(x) => x >= 0. && x < 360., None => true });
    let gs: Option<u16> = kani::any();
    let res = B50__rate(&mut r, &roll, &track, &gs);
    let (st, sg, v) = (field!(p, res, 1), field!(p, res, 1), field!(p, res, 9));
    let k = twos(sg, v, 9);
    match res {
        Ok(Some(x)) => {
            assert!(st == 1 && v != 511 && r.bits_read == p.bits_read);
            assert!(x == k as f64 * (8. / 256.));
            assert!(x.is_finite() && x >= -16. && x < 16.);
        }
        Ok(None) => assert!((st == 0 || v == 511) && r.bits_read == p.bits_read),
        // must accept: status 1, available, and either no roll or a turn towards the low wing / no turn
        Err(_) => assert!(!(st == 1 && v != 511 && match roll { None => true, Some(ro) => (ro >= 0. && k >= 0) || (ro <= 0. && k <= 0) })),
    }
    kani::cover!(matches!(res, Ok(Some(x)) if x < 0.));
}
/// true airspeed: status, 10 bits, LSB 2 kt; cross-check is against the GROUND SPEED of the register
#[kani::proof]
fn c01c03c08_bds50_tas() {
    let mut r = BitReader::any(); let mut p = r.fork();
    let roll: Option<f64> = kani::any();
    let track: Option<f64> = kani::any();
    let gs: Option<u16> = kani::any();
    kani::assume(match gs { Some(g) => g <= 2046 && g % 2 == 0, None => true });
    let rate: Option<f64> = kani::any();
    let res = B50__tas(&mut r, &roll, &track, &gs, &rate);
    let (st, v) = (field!(p, res, 1), field!(p, res, 10));
    match res {
        Ok(Some(x)) => { assert!(st == 1 && r.bits_read == p.bits_read); assert!(x as u64 == 2 * v); }
        Ok(None) => assert!(st == 0 && r.bits_read == p.bits_read),
        // must accept 100..=450 kt when the ground speed is absent or within 100 kt of it
        Err(_) => assert!(!(st == 1 && 2 * v >= 100 && 2 * v <= 450 && match gs { None => true, Some(g) => (g as i64 - 2 * v as i64).abs() <= 100 })),
    }
    kani::cover!(matches!(res, Ok(Some(_))) && gs.is_some());
}

// ---------------- BDS 6,0 -----------------------------------------------------------------------
/// magnetic heading: status, sign, 10 bits, LSB 90/512 deg, reported in [0, 360)
#[kani::proof]
fn c01c03c08_bds60_heading() {
    let mut r = BitReader::any(); let mut p = r.fork();
    let res = b60::heading(&mut r);
    let (st, sg, v) = (field!(p, res, 1), field!(p, res, 1), field!(p, res, 10));
    let k = twos(sg, v, 10);
    match res {
        Ok(Some(x)) => {
            assert!(st == 1 && r.bits_read == p.bits_read);
            assert!(x == (if k < 0 { k + 2048 } else { k }) as f64 * (90. / 512.));
            assert!(x.is_finite() && x >= 0. && x < 360.);
        }
        Ok(None) => assert!(st == 0 && r.bits_read == p.bits_read),
        Err(_) => assert!(st == 0),
    }
    kani::cover!(matches!(res, Ok(Some(x)) if x > 359.));
}
/// indicated airspeed: status, 10 bits, LSB 1 kt
#[kani::proof]
fn c01c03c08_bds60_ias() {
    let mut r = BitReader::any(); let mut p = r.fork();
    let res = b60::ias(&mut r);
    let (st, v) = (field!(p, res, 1), field!(p, res, 10));
    match res {
        Ok(Some(x)) => { assert!(st == 1 && r.bits_read == p.bits_read); assert!(x as u64 == v); }
        Ok(None) => assert!(st == 0 && r.bits_read == p.bits_read),
        Err(_) => assert!(!(st == 1 && v >= 60 && v <= 450)),
    }
    kani::cover!(matches!(res, Ok(Some(_))));
}
/// Mach: status, 10 bits, LSB 2.048/512 = 0.004; C08: Mach in (0, 1] whenever reported,
/// with or without an airspeed in the same register
#[kani::proof]
fn c01c03c08_bds60_mach() {
    let mut r = BitReader::any(); let mut p = r.fork();
    let hdg: Option<f64> = kani::any();
    let ias: Option<u16> = kani::any();
    kani::assume(match ias { Some(i) => i >= 1 && i <= 1023, None => true });
    let res = b60::mach(&mut r, &hdg, &ias);
    let (st, v) = (field!(p, res, 1), field!(p, res, 10));
    match res {
        Ok(Some(x)) => {
            assert!(st == 1 && r.bits_read == p.bits_read);
            assert!((x - v as f64 * 0.004).abs() < 1e-9);
            assert!(x.is_finite() && x > 0. && x <= 1.);
        }
        Ok(None) => assert!(st == 0 && r.bits_read == p.bits_read),
        // must accept Mach 0.40..=0.90 when no airspeed is present or it is a cruise value 220..=320 kt... wait for IAS
        Err(_) => assert!(!(st == 1 && v >= 125 && v <= 225 && match ias { None => true, Some(i) => i >= 200 && i <= 250 })),
    }
    kani::cover!(matches!(res, Ok(Some(_))) && ias.is_none());
    kani::cover!(matches!(res, Ok(Some(_))) && ias.is_some());
}
/// vertical rates: status, sign, 9 bits, LSB 32 ft/min; C08: multiple of 32 within the encodable span
fn check_vertical(res: Result<Option<i16>, DekuError>, r: &BitReader, p: &mut BitReader) {
    let (st, sg, v) = (field!(p, res, 1), field!(p, res, 1), field!(p, res, 9));
    let k = twos(sg, v, 9);
    match res {
        Ok(Some(x)) => {
            assert!(st == 1 && r.bits_read == p.bits_read);
            assert!(x as i64 == 32 * k || (x == 0 && (v == 0 || v == 511)));   // all-zero / all-one magnitude: no rate
            assert!(x % 32 == 0 && x as i64 >= -16384 && x as i64 <= 16352);
        }
        Ok(None) => assert!(st == 0 && r.bits_read == p.bits_read),
        Err(_) => assert!(!(st == 1 && k >= -150 && k <= 150)),               // must accept |rate| <= 4800 ft/min
    }
}
#[kani::proof]
fn c01c03c08_bds60_vertical_baro() {
    let mut r = BitReader::any(); let mut p = r.fork();
    let res = b60::vbaro(&mut r);
    kani::cover!(matches!(res, Ok(Some(x)) if x < 0));
    check_vertical(res, &r, &mut p);
}
#[kani::proof]
fn c01c03c08_bds60_vertical_inertial() {
    let mut r = BitReader::any(); let mut p = r.fork();
    let res = b60::vinert(&mut r);
    kani::cover!(matches!(res, Ok(Some(x)) if x > 0));
    check_vertical(res, &r, &mut p);
}

/// vacuity canary: must FAIL (claims the track is always below 180)
#[kani::proof]
fn canary_bds50_track_small() {
    let mut r = BitReader::any();
    if let Ok(Some(x)) = B50__track(&mut r) { assert!(x < 180.); }
}
