//@ unit f_commb
//@ engine kani
// Comm-B registers BDS 4,0 / 4,4 / 4,5: every field reader, map closure and `reader =` call
// expression, verbatim.  C01 totality, C03 values (ICAO Doc 9871 tables A-2-64, A-2-68, A-2-69),
// C08 ranges from the property text (wind direction [0,360), humidity [0,100], temperatures [-80,60]).
//@ include _prelude_kani.rs
#[derive(Debug, PartialEq, Clone, Copy)]
pub enum Turbulence { Nil, Light, Moderate, Severe }
#[derive(Debug, PartialEq, Clone, Copy)]
pub enum Level { Nil, Light, Moderate, Severe }
// ---- BDS 4,0 ------------------------------------------------------------------------------------
//@ extract crates/rs1090/src/decode/bds/bds40.rs fn read_selected
//@ extract crates/rs1090/src/decode/bds/bds40.rs fn read_qnh
//@ extract crates/rs1090/src/decode/bds/bds40.rs closure SelectedVerticalIntention.selected_altitude_mcp reader name=B40__mcp sig="(reader: &mut BitReader) -> Result<Option<u16>, DekuError>"
//@ extract crates/rs1090/src/decode/bds/bds40.rs closure SelectedVerticalIntention.selected_altitude_fms reader name=B40__fms sig="(reader: &mut BitReader) -> Result<Option<u16>, DekuError>"
//@ extract crates/rs1090/src/decode/bds/bds40.rs closure SelectedVerticalIntention.barometric_setting reader name=B40__qnh sig="(reader: &mut BitReader) -> Result<Option<f64>, DekuError>"
//@ extract crates/rs1090/src/decode/bds/bds40.rs closure SelectedVerticalIntention.reserved map name=B40__res sig="(v: u8) -> Result<u8, DekuError>"
//@ extract crates/rs1090/src/decode/bds/bds40.rs closure SelectedVerticalIntention.reserved1 map name=B40__res1 sig="(v: u8) -> Result<u8, DekuError>"
// ---- BDS 4,4 ------------------------------------------------------------------------------------
mod b44 {
    use super::*;
//@ extract crates/rs1090/src/decode/bds/bds44.rs fn read_wind_speed
//@ extract crates/rs1090/src/decode/bds/bds44.rs fn read_wind_direction
//@ extract crates/rs1090/src/decode/bds/bds44.rs fn read_temperature
//@ extract crates/rs1090/src/decode/bds/bds44.rs fn read_pressure
//@ extract crates/rs1090/src/decode/bds/bds44.rs fn read_turbulence
//@ extract crates/rs1090/src/decode/bds/bds44.rs fn read_humidity
//@ extract crates/rs1090/src/decode/bds/bds44.rs closure MeteorologicalRoutineAirReport.wind_speed reader name=wind_speed sig="(reader: &mut BitReader) -> Result<Option<u16>, DekuError>"
//@ extract crates/rs1090/src/decode/bds/bds44.rs closure MeteorologicalRoutineAirReport.wind_direction reader name=wind_direction sig="(reader: &mut BitReader, figure_of_merit: &u8, wind_speed: &Option<u16>) -> Result<Option<f64>, DekuError>"
//@ extract crates/rs1090/src/decode/bds/bds44.rs closure MeteorologicalRoutineAirReport.temperature reader name=temperature sig="(reader: &mut BitReader) -> Result<f64, DekuError>"
//@ extract crates/rs1090/src/decode/bds/bds44.rs closure MeteorologicalRoutineAirReport.pressure reader name=pressure sig="(reader: &mut BitReader) -> Result<Option<u16>, DekuError>"
//@ extract crates/rs1090/src/decode/bds/bds44.rs closure MeteorologicalRoutineAirReport.turbulence reader name=turbulence sig="(reader: &mut BitReader) -> Result<Option<Turbulence>, DekuError>"
//@ extract crates/rs1090/src/decode/bds/bds44.rs closure MeteorologicalRoutineAirReport.humidity reader name=humidity sig="(reader: &mut BitReader) -> Result<Option<f64>, DekuError>"
}
// ---- BDS 4,5 ------------------------------------------------------------------------------------
mod b45 {
    use super::*;
//@ extract crates/rs1090/src/decode/bds/bds45.rs fn read_level
//@ extract crates/rs1090/src/decode/bds/bds45.rs fn read_temperature
//@ extract crates/rs1090/src/decode/bds/bds45.rs fn read_pressure
//@ extract crates/rs1090/src/decode/bds/bds45.rs fn read_height
//@ extract crates/rs1090/src/decode/bds/bds45.rs fn fail_if_not_zero pub
//@ extract crates/rs1090/src/decode/bds/bds45.rs closure MeteorologicalHazardReport.turbulence reader name=level sig="(reader: &mut BitReader) -> Result<Option<Level>, DekuError>"
//@ extract crates/rs1090/src/decode/bds/bds45.rs closure MeteorologicalHazardReport.static_temperature reader name=temperature sig="(reader: &mut BitReader) -> Result<Option<f64>, DekuError>"
//@ extract crates/rs1090/src/decode/bds/bds45.rs closure MeteorologicalHazardReport.static_pressure reader name=pressure sig="(reader: &mut BitReader) -> Result<Option<u32>, DekuError>"
//@ extract crates/rs1090/src/decode/bds/bds45.rs closure MeteorologicalHazardReport.radio_height reader name=height sig="(reader: &mut BitReader) -> Result<Option<u32>, DekuError>"
}

// ================= BDS 4,0 =========================================================================
/// MCP/FCU and FMS selected altitude: status, 12 bits, LSB 16 ft; reported on the 100 ft grid the
/// crew selects on: whichever way the transmitter rounded to 16 ft, the grid value comes back
fn check_selected(res: Result<Option<u16>, DekuError>, r: &BitReader, p: &mut BitReader) {
    let (st, v) = (field!(p, res, 1), field!(p, res, 12));
    match res {
        Ok(Some(x)) => {
            assert!(st == 1 && r.bits_read == p.bits_read);
            // on the 100 ft grid, within 92 ft of the transmitted 16 ft value, and exactly the grid value
            // whenever one lies within half an LSB (8 ft) of the transmitted value
            let t = 16 * v as u32;
            let q: u32 = kani::any(); kani::assume(q <= 655 && 100 * q <= t && t < 100 * q + 100);   // q = floor(t / 100), stated without a divider
            let lo = 100 * q;                    // grid value below
            assert!(x as u32 == lo || x as u32 == lo + 100);
            if t - lo <= 8 { assert!(x as u32 == lo); }
            if lo + 100 - t <= 8 { assert!(x as u32 == lo + 100); }
        }
        Ok(None) => assert!(st == 0 && r.bits_read == p.bits_read),
        Err(_) => assert!(!(st == 1 && 16 * v <= 43000)),              // must accept up to FL430
    }
}
#[kani::proof]
fn c01c03c08_bds40_selected_mcp() { let mut r = BitReader::any(); let mut p = r.fork(); let res = B40__mcp(&mut r); kani::cover!(matches!(res, Ok(Some(_)))); check_selected(res, &r, &mut p); }
#[kani::proof]
fn c01c03c08_bds40_selected_fms() { let mut r = BitReader::any(); let mut p = r.fork(); let res = B40__fms(&mut r); kani::cover!(matches!(res, Ok(Some(_)))); check_selected(res, &r, &mut p); }
/// barometric setting: status, 12 bits, 0.1 hPa + 800
#[kani::proof]
fn c01c03c08_bds40_qnh() {
    let mut r = BitReader::any(); let mut p = r.fork();
    let res = B40__qnh(&mut r);
    let (st, v) = (field!(p, res, 1), field!(p, res, 12));
    match res {
        Ok(Some(x)) => { assert!(st == 1 && r.bits_read == p.bits_read); assert!((x - (800. + 0.1 * v as f64)).abs() < 1e-9); assert!(x.is_finite() && x >= 800. && x <= 1209.6); }
        Ok(None) => assert!(st == 0 && r.bits_read == p.bits_read),
        Err(_) => assert!(st == 0),
    }
    kani::cover!(matches!(res, Ok(Some(_))));
}
#[kani::proof]
fn c01_bds40_reserved() {
    let v: u8 = kani::any();
    assert!(B40__res(v) == if v == 0 { Ok(0) } else { Err(DekuError::Assertion) });
    let w: u8 = kani::any(); kani::assume(w < 4);
    assert!(B40__res1(w) == if w == 0 { Ok(0) } else { Err(DekuError::Assertion) });
}
// ================= BDS 4,4 =========================================================================
#[kani::proof]
fn c01c03c08_bds44_wind_speed() {
    let mut r = BitReader::any(); let mut p = r.fork();
    let res = b44::wind_speed(&mut r);
    let (st, v) = (field!(p, res, 1), field!(p, res, 9));
    match res {
        Ok(Some(x)) => { assert!(st == 1 && r.bits_read == p.bits_read && x as u64 == v); }      // LSB 1 kt
        Ok(None) => assert!(st == 0 && r.bits_read == p.bits_read),
        Err(_) => assert!(!(st == 1 && v <= 200)),
    }
    kani::cover!(matches!(res, Ok(Some(_))));
}
/// wind direction: 9 bits, LSB 180/256 deg, meaningful iff the wind speed of the SAME register is present
#[kani::proof]
fn c01c03c08_bds44_wind_direction() {
    let fom: u8 = kani::any();
    let sp: Option<u16> = kani::any();
    let mut r2 = BitReader::any(); let mut p2 = r2.fork();
    let res2 = b44::wind_direction(&mut r2, &fom, &sp);
    let d = field!(p2, res2, 9);
    match res2 {
        Ok(Some(x)) => { assert!(sp.is_some() && r2.bits_read == p2.bits_read); assert!(x == d as f64 * (180. / 256.)); assert!(x.is_finite() && x >= 0. && x < 360.); }
        Ok(None) => assert!(sp.is_none()),
        Err(_) => assert!(sp.is_none()),
    }
    kani::cover!(matches!(res2, Ok(Some(x)) if x > 359.));
}
#[kani::proof]
fn c01c03c08_bds44_temperature_humidity() {
    let mut r = BitReader::any(); let mut p = r.fork();
    let res = b44::temperature(&mut r);
    let (sg, v) = (field!(p, res, 1), field!(p, res, 10));
    let k = twos(sg, v, 10);
    match res {
        Ok(x) => { assert!(r.bits_read == p.bits_read); assert!(x == k as f64 * 0.25); assert!(x.is_finite() && x >= -80. && x <= 60.); }   // LSB 0.25 C
        Err(_) => assert!(!(k >= -320 && k <= 240)),                    // every temperature in [-80, 60] is accepted
    }
    let mut r2 = BitReader::any(); let mut p2 = r2.fork();
    let res2 = b44::humidity(&mut r2);
    let (st, h) = (field!(p2, res2, 1), field!(p2, res2, 6));
    match res2 {
        Ok(Some(x)) => { assert!(st == 1 && r2.bits_read == p2.bits_read); assert!(x == h as f64 * (100. / 64.)); assert!(x.is_finite() && x >= 0. && x <= 100.); }
        Ok(None) => assert!(st == 0),
        Err(_) => assert!(st == 0),
    }
}
#[kani::proof]
fn c01c03_bds44_pressure_turbulence() {
    let mut r = BitReader::any(); let mut p = r.fork();
    let res = b44::pressure(&mut r);
    let (st, v) = (field!(p, res, 1), field!(p, res, 11));
    match res { Ok(Some(x)) => { assert!(st == 1 && x as u64 == v); } Ok(None) => assert!(st == 0 && v == 0), Err(_) => {} }
    let mut r2 = BitReader::any(); let mut p2 = r2.fork();
    let res2 = b44::turbulence(&mut r2);
    let (st2, t) = (field!(p2, res2, 1), field!(p2, res2, 2));
    match res2 {
        Ok(Some(x)) => { assert!(st2 == 1); assert!(x == [Turbulence::Nil, Turbulence::Light, Turbulence::Moderate, Turbulence::Severe][t as usize]); }
        Ok(None) => assert!(st2 == 0),
        Err(_) => assert!(st2 == 0),
    }
}
// ================= BDS 4,5 =========================================================================
#[kani::proof]
fn c01c03_bds45_levels_pressure_height() {
    let mut r = BitReader::any(); let mut p = r.fork();
    let res = b45::level(&mut r);
    let (st, t) = (field!(p, res, 1), field!(p, res, 2));
    match res {
        Ok(Some(x)) => { assert!(st == 1); assert!(x == [Level::Nil, Level::Light, Level::Moderate, Level::Severe][t as usize]); }
        Ok(None) => assert!(st == 0),
        Err(_) => assert!(st == 0),
    }
    let mut r2 = BitReader::any(); let mut p2 = r2.fork();
    let res2 = b45::pressure(&mut r2);
    let (s2, v2) = (field!(p2, res2, 1), field!(p2, res2, 11));
    match res2 { Ok(Some(x)) => assert!(s2 == 1 && x as u64 == v2), Ok(None) => assert!(s2 == 0), Err(_) => assert!(s2 == 0) }   // LSB 1 hPa
    let mut r3 = BitReader::any(); let mut p3 = r3.fork();
    let res3 = b45::height(&mut r3);
    let (s3, v3) = (field!(p3, res3, 1), field!(p3, res3, 12));
    match res3 { Ok(Some(x)) => assert!(s3 == 1 && x as u64 == 16 * v3), Ok(None) => assert!(s3 == 0), Err(_) => assert!(s3 == 0) } // LSB 16 ft
    let z: u8 = kani::any();
    assert!(b45::fail_if_not_zero(z).is_ok() == (z == 0));
}
#[kani::proof]
fn c01c03c08_bds45_temperature() {
    let mut r = BitReader::any(); let mut p = r.fork();
    let res = b45::temperature(&mut r);
    let (st, sg, v) = (field!(p, res, 1), field!(p, res, 1), field!(p, res, 9));
    let k = twos(sg, v, 9);
    match res {
        Ok(Some(x)) => { assert!(st == 1 && r.bits_read == p.bits_read); assert!(x == k as f64 * 0.25); assert!(x.is_finite() && x >= -80. && x <= 60.); }
        Ok(None) => assert!(st == 0),
        Err(_) => assert!(!(st == 1 && k >= -320 && k <= 240)),
    }
    kani::cover!(matches!(res, Ok(Some(x)) if x < -79.));
}
/// vacuity canary: must FAIL
#[kani::proof]
fn canary_commb_humidity_small() {
    let mut r = BitReader::any();
    if let Ok(Some(x)) = b44::humidity(&mut r) { assert!(x < 50.); }
}
