//@ unit f_ident
//@ engine kani
// BDS 0,8 / 2,0 (identification, call sign, category), BDS 2,1 (registration markings), BDS 3,0
// threat range / bearing, and the small acceptance helpers of BDS 1,0 / 1,7 / 2,0 / 3,0.
// C01 totality; C03 call-sign characters per ICAO Annex 10 vol. IV table 3-9 (6-bit subset of IA-5);
// C08 "call signs drawn from the 6-bit character set".
//@ include _prelude_kani.rs
//@ include _prelude_small.rs
//@ assume-note "R7b: Vec<u8> / String of at most 8 elements are replaced by array-backed stand-ins Vec8 / Str8 (std collections are trusted; see specs/_prelude_small.rs)"
#[derive(Debug, PartialEq, Copy, Clone, Default, kani::Arbitrary)]
pub enum Typecode { D = 1, C = 2, B = 3, #[default] A = 4 }
//@ extract crates/rs1090/src/decode/bds/bds08.rs enum WakeVortex derive="Debug, PartialEq, Copy, Clone"
//@ sub "Self::Error" "DekuError"
//@ extract crates/rs1090/src/decode/bds/bds08.rs fn try_from impl=Typecode trait=TryFrom wrap
//@ extract crates/rs1090/src/decode/bds/bds08.rs closure AircraftIdentification.tc default okwrap name=B08__tc sig="(id: &u8) -> Result<Typecode, DekuError>"
//@ extract crates/rs1090/src/decode/bds/bds08.rs fn wake_vortex
//@ extract crates/rs1090/src/decode/bds/bds08.rs closure AircraftIdentification.wake_vortex reader name=B08__wv sig="(id: &u8, tc: &Typecode, ca: &u8) -> Result<WakeVortex, DekuError>"
//@ extract crates/rs1090/src/decode/bds/bds08.rs const CHAR_LOOKUP
//@ sub "vec!\[\]" "Vec8::new()"
//@ sub "collect::<String>\(\)" "collect::<Str8>()"
//@ sub "Result<String, DekuError>" "Result<Str8, DekuError>"
//@ extract crates/rs1090/src/decode/bds/bds08.rs fn callsign_read
//@ extract crates/rs1090/src/decode/bds/bds08.rs closure AircraftIdentification.callsign reader name=B08__callsign sig="(reader: &mut BitReader) -> Result<Str8, DekuError>"
mod bds08 { pub use super::callsign_read; }
//@ extract crates/rs1090/src/decode/bds/bds20.rs closure AircraftIdentification.callsign reader name=B20__callsign sig="(reader: &mut BitReader) -> Result<Str8, DekuError>"
//@ extract crates/rs1090/src/decode/bds/bds20.rs fn fail_if_not20
//@ extract crates/rs1090/src/decode/bds/bds10.rs fn fail_if_not0
//@ extract crates/rs1090/src/decode/bds/bds10.rs fn fail_if_not10
//@ extract crates/rs1090/src/decode/bds/bds30.rs fn fail_if_not30
//@ extract crates/rs1090/src/decode/bds/bds17.rs fn fail_if_false
//@ extract crates/rs1090/src/decode/bds/bds17.rs fn check_zeros
//@ extract crates/rs1090/src/decode/bds/bds30.rs closure ThreatOrientation.range map name=B30__range sig="(n: u8) -> Result<Option<f32>, DekuError>"
//@ extract crates/rs1090/src/decode/bds/bds30.rs closure ThreatOrientation.bearing map name=B30__bearing sig="(n: u16) -> Result<Option<u16>, DekuError>"
mod b21 {
    use super::*;
    // R7 stand-in for the `regex` crate: a pattern is compiled (unwrap cannot fail for the literal in the
    // source: trusted) and is_match returns an arbitrary verdict
    pub struct Regex;
    impl Regex { pub fn new(_p: &str) -> Result<Regex, ()> { Ok(Regex) } pub fn is_match<T>(&self, _s: &T) -> bool { kani::any() } }
//@ extract crates/rs1090/src/decode/bds/bds21.rs const CHAR_LOOKUP pub
//@ sub "vec!\[\]" "Vec8::new()"
//@ sub "collect::<String>\(\)" "collect::<Str8>()"
//@ sub "Result<Option<String>, DekuError>" "Result<Option<Str8>, DekuError>"
//@ extract crates/rs1090/src/decode/bds/bds21.rs fn aircraft_registration_read
//@ sub "vec!\[\]" "Vec8::new()"
//@ sub "collect::<String>\(\)" "collect::<Str8>()"
//@ sub "Result<Option<String>, DekuError>" "Result<Option<Str8>, DekuError>"
//@ extract crates/rs1090/src/decode/bds/bds21.rs fn airline_registration_read
}

/// standard 6-bit character (Annex 10 vol. IV table 3-9): 1..26 letters, 48..57 digits, 32 space;
/// every other code has no character and is shown as '#'
fn std_char(c: u64) -> u8 {
    if c >= 1 && c <= 26 { b'A' + (c as u8 - 1) } else if c >= 48 && c <= 57 { b'0' + (c as u8 - 48) } else if c == 32 { b' ' } else { b'#' }
}
fn check_callsign(res: Result<Str8, DekuError>, r: &BitReader, p: &mut BitReader) {
    let mut expect = [0u8; 8];
    let mut n = 0;
    let mut i = 0;
    while i < 8 {
        let c = field!(p, res, 6);
        if c != 32 { expect[n] = std_char(c); n += 1; }     // spaces (padding) are dropped
        i += 1;
    }
    let s = res.unwrap();
    assert!(r.bits_read == p.bits_read);
    let b = s.as_bytes();
    assert!(b.len() == n);
    let mut k = 0;
    while k < n {
        assert!(b[k] == expect[k]);
        assert!((b[k] >= b'A' && b[k] <= b'Z') || (b[k] >= b'0' && b[k] <= b'9') || b[k] == b'#');   // C08
        k += 1;
    }
}
#[kani::proof]
#[kani::unwind(10)]
fn c01c03c08_bds08_callsign() {
    let mut r = BitReader::any(); let mut p = r.fork();
    let res = B08__callsign(&mut r);
    check_callsign(res, &r, &mut p);
}
#[kani::proof]
#[kani::unwind(10)]
fn c01c03c08_bds20_callsign() {
    let mut r = BitReader::any(); let mut p = r.fork();
    let res = B20__callsign(&mut r);
    check_callsign(res, &r, &mut p);
}
/// the table itself: 64 entries, each the standard character
#[kani::proof]
fn c03c08_char_lookup_table() {
    let c: u8 = kani::any(); kani::assume(c < 64);
    assert!(CHAR_LOOKUP[c as usize] == std_char(c as u64));
    assert!(b21::CHAR_LOOKUP[c as usize] == std_char(c as u64));
}
/// category: type code 1..4 -> set D..A (Typecode), category per DO-260B table 2-14
#[kani::proof]
fn c01c03_bds08_category() {
    let id: u8 = kani::any(); kani::assume(id < 32);
    let tc = B08__tc(&id);
    match tc {
        Ok(t) => assert!(id >= 1 && id <= 4 && t as u8 == id),
        Err(_) => assert!(id == 0 || id > 4),
    }
    let t: Typecode = kani::any();
    let ca: u8 = kani::any(); kani::assume(ca < 8);
    let w = B08__wv(&id, &t, &ca).unwrap();
    let std = match (t, ca) {
        (Typecode::D, _) => WakeVortex::Reserved,
        (_, 0) => WakeVortex::NoInformation,
        (Typecode::C, 1) => WakeVortex::EmergencyVehicle, (Typecode::C, 3) => WakeVortex::ServiceVehicle,
        (Typecode::C, _) => WakeVortex::Obstruction,
        (Typecode::B, 1) => WakeVortex::Glider, (Typecode::B, 2) => WakeVortex::Lighter, (Typecode::B, 3) => WakeVortex::Parachutist,
        (Typecode::B, 4) => WakeVortex::Ultralight, (Typecode::B, 5) => WakeVortex::Reserved, (Typecode::B, 6) => WakeVortex::Unmanned,
        (Typecode::B, _) => WakeVortex::Space,
        (Typecode::A, 1) => WakeVortex::Light, (Typecode::A, 2) => WakeVortex::Medium1, (Typecode::A, 3) => WakeVortex::Medium2,
        (Typecode::A, 4) => WakeVortex::HighVortex, (Typecode::A, 5) => WakeVortex::Heavy, (Typecode::A, 6) => WakeVortex::HighPerformance,
        (Typecode::A, _) => WakeVortex::Rotorcraft,
    };
    assert!(w == std);
}
/// acceptance helpers: BDS code bytes and reserved fields
#[kani::proof]
#[kani::unwind(6)]
fn c01c03_register_guards() {
    let v: u8 = kani::any();
    assert!(fail_if_not20(v).is_ok() == (v == 0x20));
    assert!(fail_if_not10(v).is_ok() == (v == 0x10));
    assert!(fail_if_not30(v).is_ok() == (v == 0x30));
    assert!(fail_if_not0(v).is_ok() == (v == 0));
    let b: bool = kani::any();
    assert!(fail_if_false(b).is_ok() == b);
    let mut r = BitReader::any(); let mut p = r.fork();
    let res = check_zeros(&mut r);
    let (a, b1, c, d) = (field!(p, res, 3), field!(p, res, 8), field!(p, res, 8), field!(p, res, 8));
    assert!(res.is_ok() == (a == 0 && b1 == 0 && c == 0 && d == 0));
}
/// BDS 3,0 threat range (7 bits, 0 = none, (n-1)/10 NM) and bearing (6 bits, 0 = none, 6(n-1)+3 deg)
#[kani::proof]
fn c01c08_bds30_range_bearing() {
    let n: u8 = kani::any(); kani::assume(n < 128);
    match B30__range(n as _).unwrap() { None => assert!(n == 0), Some(x) => { assert!(n != 0 && x.is_finite() && x >= 0. && x <= 12.65); } }
    let m: u16 = kani::any(); kani::assume(m < 64);
    match B30__bearing(m as _).unwrap() { None => assert!(m == 0), Some(x) => { assert!(x == 6 * (m - 1) + 3 && x < 380); } }
}
/// BDS 2,1: total for every payload and every verdict of the pattern matcher (including the
/// empty string left when all characters are spaces)
#[kani::proof]
#[kani::unwind(10)]
fn c01_bds21_registration_total() {
    let mut r = BitReader::any();
    let st: bool = kani::any();
    let res = b21::aircraft_registration_read(&mut r, st);
    if let Ok(Some(s)) = &res { assert!(st && s.len() <= 7); }
    let mut r2 = BitReader::any();
    let st2: bool = kani::any();
    let res2 = b21::airline_registration_read(&mut r2, st2);
    if let Ok(Some(_)) = &res2 { assert!(st2); }
}
/// vacuity canary: must FAIL
#[kani::proof]
#[kani::unwind(10)]
fn canary_ident_callsign_empty() {
    let mut r = BitReader::any();
    if let Ok(s) = B08__callsign(&mut r) { assert!(s.len() == 0); }
}
