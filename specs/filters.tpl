//@ unit filters
//@ engine kani-cargo
//@ dep rs1090 = { path = "{REPO}/crates/rs1090", default-features = false }
//@ dep serde = { version = "1.0", features = ["derive"] }
//@ opt harness_timeout 1500
// C11 — crates/jet1090/src/filters.rs compiled UNMODIFIED (#[path] include) against the real rs1090
// types.  Oracle for "displayed df / icao24": generated from the serde attributes of the real type
// definitions (tools/shown.py), i.e. the key the JSON shows, independent of filters.rs.
#![allow(dead_code, unused_variables, unused_mut, unused_imports, non_snake_case)]
//@ path-include crates/jet1090/src/filters.rs filters
use filters::Filters;
use rs1090::decode::adsb::{ADSB, ME};
use rs1090::decode::commb::{DF20DataSelector, DF21DataSelector};
use rs1090::decode::*;
//@ shown-oracle

fn any_fs() -> FlightStatus { FlightStatus::NoAlertNoSpiAirborne }
/// a decoded record of any of the nine address-carrying formats with symbolic address fields
/// (the announced address and, where the format has one, a DIFFERENT parity / interrogator field)
fn any_record(which: u8, a: u32, b: u32) -> Message {
    let ac = AC13Field(1000);
    let id = IdentityCode(0x1200);
    let df = match which {
        0 => DF::ShortAirAirSurveillance { vs: 0, cc: 0, unused: 0, sl: 0, unused1: 0, ri: 0, unused2: 0, ac, ap: IcaoParity(a) },
        1 => DF::SurveillanceAltitudeReply { fs: any_fs(), dr: DownlinkRequest::None, um: UtilityMessage { iis: 0, ids: UtilityMessageType::NoInformation }, ac, ap: IcaoParity(a) },
        2 => DF::SurveillanceIdentityReply { fs: any_fs(), dr: DownlinkRequest::None, um: UtilityMessage { iis: 0, ids: UtilityMessageType::NoInformation }, id, ap: IcaoParity(a) },
        3 => DF::AllCallReply { capability: Capability::AG_AIRBORNE, icao: ICAO(a), p_icao: ICAO(b) },
        4 => DF::LongAirAirSurveillance { vs: 0, reserved1: 0, sl: 0, reserved2: 0, ri: 0, reserved3: 0, ac, mv: Vec::new(), ap: IcaoParity(a) },
        5 => DF::ExtendedSquitterADSB(ADSB { capability: Capability::AG_AIRBORNE, icao24: ICAO(a), message: ME::Reserved1 { unused: 0 }, parity: ICAO(b) }),
        6 => DF::ExtendedSquitterTisB { cf: ControlField { field_type: ControlFieldType::TISB_FINE, aa: ICAO(a), me: ME::Reserved1 { unused: 0 } }, pi: ICAO(b) },
        7 => DF::CommBAltitudeReply { fs: any_fs(), dr: DownlinkRequest::None, um: UtilityMessage { iis: 0, ids: UtilityMessageType::NoInformation }, ac, bds: DF20DataSelector::default(), ap: IcaoParity(a) },
        _ => DF::CommBIdentityReply { fs: any_fs(), dr: DownlinkRequest::None, um: UtilityMessage { iis: 0, ids: UtilityMessageType::NoInformation }, id, bds: DF21DataSelector::default(), ap: IcaoParity(a) },
    };
    Message { crc: if which == 5 || which == 6 { 0 } else { a }, df }
}
/// a filter configuration: absent / empty / one or two entries (each symbolic)
fn any_df_filter() -> Option<Vec<String>> {
    const LABELS: [&str; 12] = ["0", "4", "5", "11", "16", "17", "18", "19", "20", "21", "24", "1"];
    match kani::any::<u8>() % 4 {
        0 => None,
        1 => Some(Vec::new()),
        2 => { let i: usize = kani::any(); kani::assume(i < 12); Some(vec![LABELS[i].to_string()]) }
        _ => { let i: usize = kani::any(); let j: usize = kani::any(); kani::assume(i < 12 && j < 12); Some(vec![LABELS[i].to_string(), LABELS[j].to_string()]) }
    }
}
fn any_ac_filter() -> Option<Vec<ICAO>> {
    match kani::any::<u8>() % 4 {
        0 => None,
        1 => Some(Vec::new()),
        2 => Some(vec![ICAO(kani::any())]),
        _ => Some(vec![ICAO(kani::any()), ICAO(kani::any())]),
    }
}
fn spec_keep(f: &Filters, m: &Message) -> bool {
    let df = shown_df(&m.df).unwrap();
    let icao = shown_icao24(&m.df).unwrap();
    let df_ok = match &f.df_filter { None => true, Some(v) => v.is_empty() || v.iter().any(|x| x == df) };
    let ac_ok = match &f.aircraft_filter { None => true, Some(v) => v.is_empty() || v.iter().any(|x| x.0 == icao) };
    df_ok && ac_ok
}
fn check_format(which: u8) {
    let a: u32 = kani::any(); let b: u32 = kani::any();
    kani::assume(a < (1 << 24) && b < (1 << 24));
    let f = Filters { df_filter: any_df_filter(), aircraft_filter: any_ac_filter() };
    let msg = any_record(which, a, b);
    let expect = spec_keep(&f, &msg);
    let tm = TimedMessage { timestamp: 0., frame: Vec::new(), message: Some(msg), metadata: Vec::new(), decode_time: None };
    assert!(Filters::is_in(&f, &tm) == expect);
    kani::cover!(expect);
    kani::cover!(!expect);
}
//@ harness bounded="filter lists of at most 2 entries"
#[kani::proof]
#[kani::unwind(4)]
fn c11_df0() { check_format(0); }
//@ harness bounded="filter lists of at most 2 entries"
#[kani::proof]
#[kani::unwind(4)]
fn c11_df4() { check_format(1); }
//@ harness bounded="filter lists of at most 2 entries"
#[kani::proof]
#[kani::unwind(4)]
fn c11_df5() { check_format(2); }
//@ harness bounded="filter lists of at most 2 entries"
#[kani::proof]
#[kani::unwind(4)]
fn c11_df11() { check_format(3); }
//@ harness bounded="filter lists of at most 2 entries"
#[kani::proof]
#[kani::unwind(4)]
fn c11_df16() { check_format(4); }
//@ harness bounded="filter lists of at most 2 entries"
#[kani::proof]
#[kani::unwind(4)]
fn c11_df17() { check_format(5); }
//@ harness bounded="filter lists of at most 2 entries"
#[kani::proof]
#[kani::unwind(4)]
fn c11_df18() { check_format(6); }
//@ harness bounded="filter lists of at most 2 entries"
#[kani::proof]
#[kani::unwind(4)]
fn c11t_df20() { check_format(7); }
//@ harness bounded="filter lists of at most 2 entries"
#[kani::proof]
#[kani::unwind(4)]
fn c11t_df21() { check_format(8); }
// ---- modular, unbounded in the filter lists: is_in against the CONTRACTS of its two private callees ----
// aircraft_in / df_in are replaced by stand-ins returning an arbitrary verdict and recording what they
// were asked; is_in must ask about the displayed address / displayed df and combine the verdicts by AND.
//@ allow "kani::stub(filters::Filters::aircraft_in"
//@ allow "kani::stub(filters::Filters::df_in"
pub static mut AC_CALLS: u32 = 0;
pub static mut AC_ARG: u32 = 0;
pub static mut AC_RET: bool = false;
pub static mut DF_CALLS: u32 = 0;
pub static mut DF_ARG: u8 = 0;
pub static mut DF_RET: bool = false;
fn label_code(s: &str) -> u8 { let b = s.as_bytes(); if b.len() == 1 { b[0] - b'0' } else if b.len() == 2 { (b[0] - b'0') * 10 + (b[1] - b'0') } else { 255 } }
pub fn aircraft_in_any<T>(_filter: &Filters, icao24: &T) -> bool where T: Copy + Into<ICAO> {
    let v: ICAO = (*icao24).into();
    unsafe { AC_CALLS += 1; AC_ARG = v.0; AC_RET = kani::any(); AC_RET }
}
pub fn df_in_any(_filter: &Filters, df: &str) -> bool {
    unsafe { DF_CALLS += 1; DF_ARG = label_code(df); DF_RET = kani::any(); DF_RET }
}
fn check_format_modular(which: u8) {
    let a: u32 = kani::any(); let b: u32 = kani::any();
    kani::assume(a < (1 << 24) && b < (1 << 24));
    let f = Filters { df_filter: None, aircraft_filter: None };     // never inspected: both callees are stand-ins
    let msg = any_record(which, a, b);
    let (sdf, sicao) = (label_code(shown_df(&msg.df).unwrap()), shown_icao24(&msg.df).unwrap());
    let tm = TimedMessage { timestamp: 0., frame: Vec::new(), message: Some(msg), metadata: Vec::new(), decode_time: None };
    let r = Filters::is_in(&f, &tm);
    unsafe {
        assert!(AC_CALLS == 1 && AC_ARG == sicao);                  // asked about the DISPLAYED address, once
        if AC_RET { assert!(DF_CALLS == 1 && DF_ARG == sdf && r == DF_RET); }   // and about the DISPLAYED df
        else { assert!(!r); }
    }
}
#[kani::proof]
#[kani::stub(filters::Filters::aircraft_in, aircraft_in_any)]
#[kani::stub(filters::Filters::df_in, df_in_any)]
fn c11_modular_all_nine_formats() {
    let which: u8 = kani::any(); kani::assume(which < 9);
    check_format_modular(which);
}

/// records that failed to decode are never kept, whatever the filters
//@ harness bounded="filter lists of at most 2 entries"
#[kani::proof]
#[kani::unwind(4)]
fn c11_undecoded_never_kept() {
    let f = Filters { df_filter: any_df_filter(), aircraft_filter: any_ac_filter() };
    let tm = TimedMessage { timestamp: 0., frame: Vec::new(), message: None, metadata: Vec::new(), decode_time: None };
    assert!(!Filters::is_in(&f, &tm));
}
/// vacuity canary: must FAIL
#[kani::proof]
#[kani::unwind(4)]
fn canary_filters_everything_kept() {
    let f = Filters { df_filter: any_df_filter(), aircraft_filter: None };
    let tm = TimedMessage { timestamp: 0., frame: Vec::new(), message: Some(any_record(0, 1, 2)), metadata: Vec::new(), decode_time: None };
    assert!(Filters::is_in(&f, &tm));
}
