//@ unit flarm
//@ engine kani-cargo
//@ dep libm = "0.2.11"
//@ defaultrules r1,r2,r3,r4,r4f
//@ opt harness_timeout 900
// C15 — FLARM (crates/rs1090/src/decode/flarm.rs), verbatim: key schedule (obscure, make_key), XXTEA
// decryption (mx, fixk, btea, Flarm::decode_btea), position reconstruction (decode_latitude /
// decode_longitude), decode_actype, decode_groundspeed, decode_track and the map closures of the record.
// Specification side (independent): XXTEA *encryption* from the published algorithm (Wheeler & Needham,
// "Correction to xtea", 1998; 6 rounds as FLARM uses), key schedule from the published FLARM v6
// description, position packing of the FLARM packet layout.
#![allow(dead_code, unused_variables, unused_mut, unused_imports, non_snake_case, unused_parens)]
#[derive(Debug, Clone, Copy, PartialEq, Eq, kani::Arbitrary)]
pub enum DekuError { Incomplete, Parse, InvalidParam, Assertion, AssertionNoStr, IdVariantNotFound, Io }
/// TRUSTED CONTRACT R2 for `u32::from_reader_with_ctx(reader, Endian::Little)`: the next four input
/// bytes as a little-endian word, or Err(Incomplete).  The input is given as words already.
pub struct BitReader { pub words: [u32; 5], pub n: usize, pub pos: usize }
impl BitReader { pub fn rd_u32_le(&mut self) -> Result<u32, DekuError> { if self.pos < self.n { self.pos += 1; Ok(self.words[self.pos - 1]) } else { Err(DekuError::Incomplete) } } }
// NAMED ASSUMPTION on libm::atan2 (outside CBMC's exact float model): any value in [-pi, pi], sign of y,
// exact at y = 0, |atan2(y,x)| >= 0.99*|y|/(|x|+|y|)
mod libm_standin {
    pub fn atan2(y: f64, x: f64) -> f64 {
        let r: f64 = kani::any();
        kani::assume(r >= -core::f64::consts::PI && r <= core::f64::consts::PI);
        if y == 0. { kani::assume(if x > 0. || (x == 0. && x.is_sign_positive()) { r == 0. } else { r == core::f64::consts::PI || r == -core::f64::consts::PI }); }
        if y > 0. { kani::assume(r > 0.); }
        if y < 0. { kani::assume(r < 0.); }
        if y != 0. && x.is_finite() && y.is_finite() { kani::assume(r.abs() >= 0.99 * (y.abs() / (x.abs() + y.abs()))); }
        r
    }
}
//@ allow "kani::assume(r"
//@ assume-note "f64 `%` inside rem_euclid(360.) is computed by libm::fmod (software) because CBMC models frem as IEEE remainder"
//@ assume-note "libm::atan2 is replaced by a stand-in returning any value in [-pi, pi] with IEEE sign conventions and |atan2(y,x)| >= 0.99*|y|/(|x|+|y|)"
//@ extract crates/rs1090/src/decode/flarm.rs const KEY1
//@ extract crates/rs1090/src/decode/flarm.rs const KEY1B
//@ extract crates/rs1090/src/decode/flarm.rs const DELTA
//@ extract crates/rs1090/src/decode/flarm.rs fn obscure
//@ extract crates/rs1090/src/decode/flarm.rs fn make_key
//@ extract crates/rs1090/src/decode/flarm.rs fn mx
//@ extract crates/rs1090/src/decode/flarm.rs fn fixk
//@ extract crates/rs1090/src/decode/flarm.rs fn btea
//@ extract crates/rs1090/src/decode/flarm.rs fn magic_value
//@ sub "\(\s*u32\)" "(pub u32)"
//@ extract crates/rs1090/src/decode/flarm.rs struct Address derive="Debug, PartialEq, Clone, Copy"
//@ extract crates/rs1090/src/decode/flarm.rs enum AircraftType derive="Debug, PartialEq, Clone, Copy"
pub struct Flarm;
//@ extract crates/rs1090/src/decode/flarm.rs fn decode_btea impl=Flarm wrap
//@ extract crates/rs1090/src/decode/flarm.rs fn decode_latitude impl=Flarm wrap
//@ extract crates/rs1090/src/decode/flarm.rs fn decode_longitude impl=Flarm wrap
//@ extract crates/rs1090/src/decode/flarm.rs fn decode_actype impl=Flarm wrap
//@ extract crates/rs1090/src/decode/flarm.rs fn decode_groundspeed impl=Flarm wrap
// CBMC models the float `%` operator as the IEEE *remainder* (round-to-nearest quotient), not as Rust's fmod
// (measured: it refutes 190.004 < 550.005 % 360. < 190.006).  f64::rem_euclid is therefore replaced by its std
// definition with `%` computed by the software fmod of the real `libm` crate (exact, symbolically executed).
pub trait RemEuclidExact { fn rem_euclid_exact(self, rhs: f64) -> f64; }
impl RemEuclidExact for f64 { fn rem_euclid_exact(self, rhs: f64) -> f64 { let r = libm::fmod(self, rhs); if r < 0.0 { r + rhs.abs() } else { r } } }
//@ sub "libm::atan2" "libm_standin::atan2"
//@ sub "\.rem_euclid\(360\.\)" ".rem_euclid_exact(360.)"
//@ extract crates/rs1090/src/decode/flarm.rs fn decode_track impl=Flarm wrap
//@ sub "Self::" "Flarm::"
//@ extract crates/rs1090/src/decode/flarm.rs closure Flarm.decoded reader name=F__decoded sig="(reader: &mut BitReader, timestamp: &u32, icao24: &Address) -> Result<Vec<u32>, DekuError>"
//@ extract crates/rs1090/src/decode/flarm.rs closure Flarm.mult map name=F__mult sig="(_v: bool, decoded: &[u32]) -> Result<i32, DekuError>"
//@ sub "Self::" "Flarm::"
//@ extract crates/rs1090/src/decode/flarm.rs closure Flarm.actype map name=F__actype sig="(_v: bool, decoded: &[u32]) -> Result<AircraftType, DekuError>"
//@ sub "Self::" "Flarm::"
//@ extract crates/rs1090/src/decode/flarm.rs closure Flarm.latitude map name=F__lat sig="(_v: bool, decoded: &[u32], reference_lat: &f64, reference_lon: &f64) -> Result<f64, DekuError>"
//@ sub "Self::" "Flarm::"
//@ extract crates/rs1090/src/decode/flarm.rs closure Flarm.longitude map name=F__lon sig="(_v: bool, decoded: &[u32], reference_lat: &f64, reference_lon: &f64) -> Result<f64, DekuError>"
//@ extract crates/rs1090/src/decode/flarm.rs closure Flarm.geoaltitude map name=F__alt sig="(_v: bool, decoded: &[u32]) -> Result<u32, DekuError>"
//@ extract crates/rs1090/src/decode/flarm.rs closure Flarm.vertical_speed map name=F__vs sig="(_v: bool, decoded: &[u32], mult: &i32) -> Result<f64, DekuError>"
//@ extract crates/rs1090/src/decode/flarm.rs closure Flarm.ns map name=F__ns sig="(_v: bool, decoded: &[u32], mult: &i32) -> Result<Vec<i32>, DekuError>"
//@ extract crates/rs1090/src/decode/flarm.rs closure Flarm.ew map name=F__ew sig="(_v: bool, decoded: &[u32], mult: &i32) -> Result<Vec<i32>, DekuError>"
//@ sub "Self::" "Flarm::"
//@ extract crates/rs1090/src/decode/flarm.rs closure Flarm.groundspeed map name=F__gs sig="(_v: bool, ns: &[i32], ew: &[i32]) -> Result<f64, DekuError>"
//@ sub "Self::" "Flarm::"
//@ extract crates/rs1090/src/decode/flarm.rs closure Flarm.track map name=F__track sig="(_v: bool, ns: &[i32], ew: &[i32], groundspeed: &f64) -> Result<f64, DekuError>"
//@ extract crates/rs1090/src/decode/flarm.rs closure Flarm.no_track map name=F__notrack sig="(_v: bool, decoded: &[u32]) -> Result<bool, DekuError>"
//@ extract crates/rs1090/src/decode/flarm.rs closure Flarm.stealth map name=F__stealth sig="(_v: bool, decoded: &[u32]) -> Result<bool, DekuError>"
//@ extract crates/rs1090/src/decode/flarm.rs closure Flarm.gps map name=F__gps sig="(_v: bool, decoded: &[u32]) -> Result<u32, DekuError>"
//@ extract crates/rs1090/src/decode/flarm.rs closure Flarm.is_icao24 map name=F__isicao sig="(v: u8) -> Result<bool, DekuError>"

// ---------------- specification: independent encoder / encryptor -----------------------------------
const SPEC_T1: [u64; 4] = [0xe43276df, 0xdca83759, 0x9802b8ac, 0x4675a56b];
const SPEC_T2: [u64; 4] = [0xfc78ea65, 0x804b90ea, 0xb76542cd, 0x329dfa32];
/// published mixing function on 64-bit longs as in the published C code:
/// obscure(k, s) = { m1 = (u32)(s * (k ^ k >> 16)); m2 = (u32)(s * (m1 ^ m1 >> 16)); m2 ^ m2 >> 16 }
fn spec_obscure(x: u64) -> u32 {
    let seed: u64 = 0x045D9F3B;
    let m1 = (seed.wrapping_mul(x ^ (x >> 16))) as u32;
    let m2 = (seed.wrapping_mul((m1 ^ (m1 >> 16)) as u64)) as u32;
    m2 ^ (m2 >> 16)
}
/// published key schedule: key[i] = obscure(table[i] ^ ((time >> 6) ^ addr), 0x045D9F3B) ^ 0x87B562F4, table by bit 23 of
/// time.  The mixing function is the callee under its own contract (c15_obscure_is_the_published_mixing): modular step.
fn spec_key_word(time: u32, addr: u32, i: usize) -> u32 {
    let t = if (time >> 23) & 1 == 1 { SPEC_T2[i] } else { SPEC_T1[i] };
    let x: i64 = (t as i64) ^ (((time as i64) >> 6) ^ addr as i64);
    (obscure(x, 0x045D9F3B) as u32) ^ 0x87B562F4
}
/// contract of `obscure` on every argument make_key can pass (table ^ (time >> 6) ^ address < 2^32)
#[kani::proof]
fn c15_obscure_is_the_published_mixing() {
    let k: u32 = kani::any();
    let r = obscure(k as i64, 0x045D9F3B);
    assert!(r >= 0 && r <= u32::MAX as i64 && r as u32 == spec_obscure(k as u64));
}
/// XXTEA encryption of a 5-word block, 6 rounds (reference implementation, n > 1 branch)
fn spec_xxtea_encrypt(v: &mut [u32; 5], k: &[u32; 4]) {
    let n = 5usize;
    let mut rounds = 6;
    let mut sum: u32 = 0;
    let mut z = v[n - 1];
    while rounds > 0 {
        sum = sum.wrapping_add(0x9E3779B9);
        let e = (sum >> 2) & 3;
        let mut p = 0usize;
        while p < n - 1 {
            let y = v[p + 1];
            let m = (((z >> 5) ^ (y << 2)).wrapping_add((y >> 3) ^ (z << 4))) ^ ((sum ^ y).wrapping_add(k[((p as u32 & 3) ^ e) as usize] ^ z));
            v[p] = v[p].wrapping_add(m);
            z = v[p];
            p += 1;
        }
        let y = v[0];
        let m = (((z >> 5) ^ (y << 2)).wrapping_add((y >> 3) ^ (z << 4))) ^ ((sum ^ y).wrapping_add(k[((p as u32 & 3) ^ e) as usize] ^ z));
        v[n - 1] = v[n - 1].wrapping_add(m);
        z = v[n - 1];
        rounds -= 1;
    }
}

// ---------------- obligations ------------------------------------------------------------------------
/// decryption inverts the independent encryptor on every block, for every key (hence every timestamp / address)
// (not registered: exceeds the solver budget)
fn c15t_btea_inverts_xxtea_encryption() {
    let plain: [u32; 5] = kani::any();
    let key: [u32; 4] = kani::any();
    let mut c = plain;
    spec_xxtea_encrypt(&mut c, &key);
    let mut v = c;
    btea(&mut v, &key);
    assert!(v[0] == plain[0] && v[1] == plain[1] && v[2] == plain[2] && v[3] == plain[3] && v[4] == plain[4]);
}
// modular step for decode_btea: the callee `btea` is replaced by a stand-in that records its arguments
//@ allow "kani::stub(btea"
pub static mut BT_KEY: [u32; 4] = [0; 4];
pub static mut BT_KLEN: usize = 0;
pub static mut BT_V: [u32; 5] = [0; 5];
pub static mut BT_VLEN: usize = 0;
pub fn btea_recorder(v: &mut [u32], k: &[u32]) {
    unsafe {
        BT_KLEN = k.len(); BT_VLEN = v.len();
        let mut i = 0; while i < 4 && i < k.len() { BT_KEY[i] = k[i]; i += 1; }
        let mut j = 0; while j < 5 && j < v.len() { BT_V[j] = v[j]; v[j] = !v[j]; j += 1; }
    }
}
/// decode_btea (through the `reader =` attribute): total on short input; reads five little-endian words
/// in order, hands them with the PUBLISHED key of (timestamp, address << 8) to btea, returns what btea leaves
/// (one harness per key word: i = 0..3)
fn decode_btea_contract(i: usize) {
    let words: [u32; 5] = kani::any();
    let n: usize = kani::any(); kani::assume(n <= 5);
    let mut r = BitReader { words, n, pos: 0 };
    let time: u32 = kani::any(); let addr: u32 = kani::any(); kani::assume(addr < (1 << 24));
    let res = F__decoded(&mut r, &time, &Address(addr));
    if n < 5 { assert!(res == Err(DekuError::Incomplete)); return; }
    let d = res.unwrap();
    unsafe {
        assert!(BT_KLEN == 4 && BT_VLEN == 5);
        assert!(BT_KEY[i] == spec_key_word(time, (addr << 8) & 0xffffff, i));
        let j: usize = kani::any(); kani::assume(j < 5);
        assert!(BT_V[j] == words[j]);
        assert!(d.len() == 5 && d[j] == !words[j]);
    }
}
#[kani::proof]
#[kani::unwind(8)]
#[kani::stub(btea, btea_recorder)]
fn c15_decode_btea_reads_words_and_uses_published_key_0() { decode_btea_contract(0); }
#[kani::proof]
#[kani::unwind(8)]
#[kani::stub(btea, btea_recorder)]
fn c15_decode_btea_reads_words_and_uses_published_key_1() { decode_btea_contract(1); }
#[kani::proof]
#[kani::unwind(8)]
#[kani::stub(btea, btea_recorder)]
fn c15_decode_btea_reads_words_and_uses_published_key_2() { decode_btea_contract(2); }
#[kani::proof]
#[kani::unwind(8)]
#[kani::stub(btea, btea_recorder)]
fn c15_decode_btea_reads_words_and_uses_published_key_3() { decode_btea_contract(3); }
/// btea itself is total on the 5-word blocks and 4-word keys decode_btea gives it
#[kani::proof]
#[kani::unwind(8)]
fn c15_btea_total() {
    let mut v: [u32; 5] = kani::any();
    let key: [u32; 4] = kani::any();
    btea(&mut v, &key);
}
/// position: total for every packed word and every reference (NaN and infinities included), result finite
#[kani::proof]
fn c15_position_total() {
    let w: u32 = kani::any(); let rf: f64 = kani::any();
    let la = Flarm::decode_latitude(w, rf).unwrap();
    let lo = Flarm::decode_longitude(w, rf).unwrap();
    assert!(la.is_finite() && lo.is_finite());
}
/// latitude: for every finite reference within +-200 deg and every true latitude within the decodable
/// window of it (+-2^18 units of 128e-7 deg around the reference's unit, one unit of margin), the 19 low
/// bits of the true latitude's unit decode to the true latitude within one quantisation step
// (not registered: exceeds the solver budget)
fn c15t_latitude_exact_in_window() {
    let rf: f64 = kani::any(); kani::assume(rf >= -200. && rf <= 200.);
    let ref_units = ((rf * 1e7) as i32) >> 7;                   // unit (128e-7 deg) holding the reference
    let d: i32 = kani::any(); kani::assume(d > -(1 << 18) && d < (1 << 18) - 1);
    let units = ref_units + d;                                  // unit of the true position
    let got = Flarm::decode_latitude((units as u32) & 0x7FFFF, rf).unwrap();
    let centre = (((units << 7) + 0x40) as f64) * 1e-7;         // centre of that unit, in degrees
    assert!(got == centre);
}
/// BOUNDED stand-in for the window contract (the unbounded obligations c15t_*_exact_in_window exceed the
/// solver budget: a 32-bit signed remainder circuit): reference fixed, true position within +-8192 units
/// (+-0.105 deg) of it; references chosen next to the wrap lines of the 19 / 20-bit fields
fn position_exact_at(rf: f64) {
    let ref_units = ((rf * 1e7) as i32) >> 7;
    let d: i32 = kani::any(); kani::assume(d >= -8192 && d <= 8192);
    let units = ref_units + d;
    let got = Flarm::decode_latitude((units as u32) & 0x7FFFF, rf).unwrap();
    assert!(got == (((units << 7) + 0x40) as f64) * 1e-7);
    let got2 = Flarm::decode_longitude((units as u32) & 0xFFFFF, rf).unwrap();
    assert!(got2 == (((units << 7) + 0x40) as f64) * 1e-7);
}
//@ harness bounded="reference 46.91 (just south of the 7 x 6.7108864 deg wrap line), offsets within +-8192 units"
#[kani::proof]
fn c15_position_exact_near_reference_46_91() { position_exact_at(46.91); }
//@ harness bounded="reference -33.5 (next to the -5 x 6.7108864 deg wrap line), offsets within +-8192 units"
#[kani::proof]
fn c15_position_exact_near_reference_m33_5() { position_exact_at(-33.5); }
//@ harness bounded="reference 0.001 (equator / Greenwich), offsets within +-8192 units"
#[kani::proof]
fn c15_position_exact_near_reference_0() { position_exact_at(0.001); }
// (not registered: exceeds the solver budget)
fn c15t_longitude_exact_in_window() {
    let rf: f64 = kani::any(); kani::assume(rf >= -200. && rf <= 200.);
    let ref_units = ((rf * 1e7) as i32) >> 7;
    let d: i32 = kani::any(); kani::assume(d > -(1 << 19) && d < (1 << 19) - 1);
    let units = ref_units + d;
    let got = Flarm::decode_longitude((units as u32) & 0xFFFFF, rf).unwrap();
    let centre = (((units << 7) + 0x40) as f64) * 1e-7;
    assert!(got == centre);
}
/// record fields: type, flags, altitude, gps, vertical speed, derivative vectors: total and as packed
#[kani::proof]
#[kani::unwind(6)]
fn c15_fields_total_and_as_packed() {
    let d: [u32; 5] = kani::any();
    let m = F__mult(true, &d).unwrap();
    assert!(m == 0 || m == 1);
    let t = F__actype(false, &d).unwrap();
    assert!(t as u32 == d[0] >> 28);
    assert!(F__alt(true, &d).unwrap() == (d[1] >> 19) & 0x1fff);
    assert!(F__notrack(true, &d).unwrap() == ((d[0] >> 14) & 1 == 1));
    assert!(F__stealth(true, &d).unwrap() == ((d[0] >> 13) & 1 == 1));
    assert!(F__gps(true, &d).unwrap() == (d[0] >> 16) & 0xfff);
    let vs = F__vs(true, &d, &m).unwrap();
    assert!(vs.is_finite() && vs.abs() <= 128. * 8. / 10.);
    let ns = F__ns(true, &d, &m).unwrap();
    let ew = F__ew(true, &d, &m).unwrap();
    assert!(ns.len() == 4 && ew.len() == 4);
    let v: u8 = kani::any();
    assert!(F__isicao(v) == if v == 0x10 { Ok(true) } else if v == 0x20 { Ok(false) } else { Err(DekuError::Assertion) });
}
/// ground speed: finite and non-negative for every derivative vector the record can hold
/// (components are i8 * mult, mult in {0, 1} by c15_fields_total_and_as_packed)
#[kani::proof]
#[kani::unwind(6)]
fn c15_groundspeed_in_range() {
    let mut ns = [0i32; 4]; let mut ew = [0i32; 4];
    let m: i32 = kani::any(); kani::assume(m == 0 || m == 1);
    let mut i = 0;
    while i < 4 { let a: i8 = kani::any(); let b: i8 = kani::any(); ns[i] = a as i32 * m; ew[i] = b as i32 * m; i += 1; }
    let gs = F__gs(true, &ns, &ew).unwrap();
    assert!(gs.is_finite() && gs >= 0. && gs <= 182.);
}
/// track: finite and in [0, 360) for every derivative vector and every ground speed decode_groundspeed
/// can return (finite, 0 ..= 182), under the named assumption on atan2
#[kani::proof]
#[kani::unwind(70)]
fn c15_track_in_range() {
    let mut ns = [0i32; 4]; let mut ew = [0i32; 4];
    let mut i = 0;
    while i < 2 { let a: i8 = kani::any(); let b: i8 = kani::any(); ns[i] = a as i32; ew[i] = b as i32; i += 1; }
    let gs: f64 = kani::any(); kani::assume(gs >= 0. && gs <= 182.);
    let tr = F__track(true, &ns, &ew, &gs).unwrap();
    assert!(tr.is_finite() && tr >= 0. && tr < 360.);
}
/// vacuity canary: must FAIL
#[kani::proof]
fn canary_flarm_latitude_never_negative() {
    let w: u32 = kani::any(); let rf: f64 = kani::any();
    assert!(Flarm::decode_latitude(w, rf).unwrap() >= 0.);
}
