//@ unit flarm_v
//@ engine verus
// C15 — FLARM position reconstruction, unbounded: the integer core of Flarm::decode_latitude /
// decode_longitude (verbatim) equals `nearest_unit`, and `nearest_unit` returns the true position's unit for
// EVERY true position inside the decodable window of EVERY reference with |ref| <= 200 deg.
// The two float conversions are abstracted (RS, stated): `(ref * 1e7) as i32` -> ref_units_1e7(ref) and
// `x as f64 * 1e-7` -> units_to_deg(x), both uninterpreted (their IEEE behaviour, totality on NaN / inf and
// the bounded float-exact instances are decided by the Kani unit `flarm`).  i32::rem_euclid is given its
// documented specification (assume_specification: Euclidean remainder for a positive modulus).
use vstd::prelude::*;
verus! {
pub enum DekuError { Incomplete, Parse, InvalidParam, Assertion, AssertionNoStr, IdVariantNotFound, Io }
pub uninterp spec fn ref_units_spec(x: f64) -> i32;
pub uninterp spec fn deg_of(x: i32) -> f64;
//@ allow "external_body"
//@ allow "assume_specification"
#[verifier::external_body]
fn ref_units_1e7(x: f64) -> (r: i32) ensures r == ref_units_spec(x) { (x * 1e7) as i32 }
#[verifier::external_body]
fn units_to_deg(x: i32) -> (r: f64) ensures r == deg_of(x) { x as f64 * 1e-7 }
pub assume_specification [i32::rem_euclid](a: i32, b: i32) -> (r: i32)
    requires b > 0,
    ensures r as int == (a as int) % (b as int), 0 <= r < b;

/// the unit (128e-7 deg) nearest to the reference unit `ru` among those congruent to l0 modulo m
pub open spec fn nearest_unit(l0: int, ru: int, m: int) -> int {
    let r = (l0 - ru) % m;
    ru + (if r >= m / 2 { r - m } else { r })
}
/// the packet carries the low bits of the true unit; if the true unit lies in the window around the
/// reference unit, reconstruction returns exactly it (for every reference unit, every window size)
proof fn lemma_window(units: int, l0: int, ru: int, m: int)
    requires m > 0, m % 2 == 0, -(m / 2) <= units - ru < m / 2, l0 == units % m
    ensures nearest_unit(l0, ru, m) == units
{
    let d = units - ru;
    vstd::arithmetic::div_mod::lemma_sub_mod_noop(units, ru, m);
    vstd::arithmetic::div_mod::lemma_sub_mod_noop(l0, ru, m);
    vstd::arithmetic::div_mod::lemma_mod_twice(units, m);
    assert((l0 - ru) % m == d % m);
    if d >= 0 { vstd::arithmetic::div_mod::lemma_small_mod(d as nat, m as nat); }
    else { vstd::arithmetic::div_mod::lemma_mod_add_multiples_vanish(d, m); vstd::arithmetic::div_mod::lemma_small_mod((d + m) as nat, m as nat); }
}
pub struct Flarm;
impl Flarm {
//@ sub "\(\(ref_lat \* 1e7\) as i32\)" "(ref_units_1e7(ref_lat))"
//@ sub "\(\(\(lat \+ round_lat\) << 7\) \+ 0x40\) as f64 \* 1e-7" "units_to_deg(((lat + round_lat) << 7) + 0x40)"
//@ extract crates/rs1090/src/decode/flarm.rs fn decode_latitude impl=Flarm rules=r4
//@ret res
//@| requires -2_000_000_000 <= ref_units_spec(ref_lat) <= 2_000_000_000,
//@| ensures res == Ok::<f64, DekuError>(deg_of((nearest_unit((decoded & 0x7FFFF) as int, (ref_units_spec(ref_lat) >> 7) as int, 0x80000) * 128 + 64) as i32)),
//@before "lat = (lat - round_lat).rem_euclid"| proof { let x = ref_units_spec(ref_lat); assert(-15_625_001 <= (x >> 7) <= 15_625_000) by(bit_vector) requires -2_000_000_000 <= x <= 2_000_000_000; assert((decoded & 0x7FFFF) < 0x80000) by(bit_vector); }
//@before "Ok("| proof { let s: i32 = (lat + round_lat) as i32; assert(-16_000_000 <= s <= 16_000_000); assert((s << 7) == s * 128 && -2_048_000_000 <= (s << 7) <= 2_048_000_000) by(bit_vector) requires -16_000_000 <= s <= 16_000_000; }
//@ sub "\(\(ref_lon \* 1e7\) as i32\)" "(ref_units_1e7(ref_lon))"
//@ sub "\(\(\(lon \+ round_lon\) << 7\) \+ 0x40\) as f64 \* 1e-7" "units_to_deg(((lon + round_lon) << 7) + 0x40)"
//@ extract crates/rs1090/src/decode/flarm.rs fn decode_longitude impl=Flarm rules=r4
//@ret res
//@| requires -2_000_000_000 <= ref_units_spec(ref_lon) <= 2_000_000_000,
//@| ensures res == Ok::<f64, DekuError>(deg_of((nearest_unit((decoded & 0xFFFFF) as int, (ref_units_spec(ref_lon) >> 7) as int, 0x100000) * 128 + 64) as i32)),
//@before "lon = (lon - round_lon).rem_euclid"| proof { let x = ref_units_spec(ref_lon); assert(-15_625_001 <= (x >> 7) <= 15_625_000) by(bit_vector) requires -2_000_000_000 <= x <= 2_000_000_000; assert((decoded & 0xFFFFF) < 0x100000) by(bit_vector); }
//@before "Ok("| proof { let s: i32 = (lon + round_lon) as i32; assert(-17_000_000 <= s <= 17_000_000); assert((s << 7) == s * 128 && -2_147_000_000 <= (s << 7) <= 2_147_000_000) by(bit_vector) requires -16_700_000 <= s <= 16_700_000; }
}
/// corollary in the property's words: latitude window +-2^18 units, longitude window +-2^19 units
proof fn theorem_latitude_exact_in_window(units: int, ru: int)
    requires -(0x40000int) <= units - ru < 0x40000
    ensures nearest_unit(units % 0x80000, ru, 0x80000) == units
{ lemma_window(units, units % 0x80000, ru, 0x80000); }
proof fn theorem_longitude_exact_in_window(units: int, ru: int)
    requires -(0x80000int) <= units - ru < 0x80000
    ensures nearest_unit(units % 0x100000, ru, 0x100000) == units
{ lemma_window(units, units % 0x100000, ru, 0x100000); }
} // verus!
fn main() {}
