//@ unit jsonkeys
//@ engine kani-cargo
//@ dep rs1090 = { path = "{REPO}/crates/rs1090", default-features = false }
//@ dep serde = { version = "1.0", features = ["derive"] }
//@ opt harness_timeout 1500
// C07 / C12 (and the oracle of C11): what the JSON shows for `icao24`, and which key the state-vector
// table uses.  Real rs1090 types and their real Display / Serialize impls (core::fmt executed symbolically);
// jet1090's snapshot::icao24 extracted verbatim.
#![allow(dead_code, unused_variables, unused_mut, unused_imports, non_snake_case)]
use rs1090::decode::adsb::{ADSB, ME};
use rs1090::decode::commb::{DF20DataSelector, DF21DataSelector};
use rs1090::decode::*;
use rs1090::decode::DF::*;
//@ include _shape_ser.rs
//@ shown-oracle
//@ extract crates/jet1090/src/snapshot.rs fn icao24 as=snapshot_icao24

fn hexd(v: u32) -> u8 { let d = (v & 0xf) as u8; if d < 10 { b'0' + d } else { b'a' + d - 10 } }
/// six lowercase hexadecimal digits of a 24-bit address
fn is_hex6(b: &[u8], a: u32) -> bool {
    b.len() == 6 && b[0] == hexd(a >> 20) && b[1] == hexd(a >> 16) && b[2] == hexd(a >> 12) && b[3] == hexd(a >> 8) && b[4] == hexd(a >> 4) && b[5] == hexd(a)
}
fn any_fs() -> FlightStatus { FlightStatus::NoAlertNoSpiAirborne }
fn um() -> UtilityMessage { UtilityMessage { iis: 0, ids: UtilityMessageType::NoInformation } }
fn any_record(which: u8, a: u32, b: u32) -> Message {
    let ac = AC13Field(1000);
    let id = IdentityCode(0x1200);
    let df = match which {
        0 => DF::ShortAirAirSurveillance { vs: 0, cc: 0, unused: 0, sl: 0, unused1: 0, ri: 0, unused2: 0, ac, ap: IcaoParity(a) },
        1 => DF::SurveillanceAltitudeReply { fs: any_fs(), dr: DownlinkRequest::None, um: um(), ac, ap: IcaoParity(a) },
        2 => DF::SurveillanceIdentityReply { fs: any_fs(), dr: DownlinkRequest::None, um: um(), id, ap: IcaoParity(a) },
        3 => DF::AllCallReply { capability: Capability::AG_AIRBORNE, icao: ICAO(a), p_icao: ICAO(b) },
        4 => DF::LongAirAirSurveillance { vs: 0, reserved1: 0, sl: 0, reserved2: 0, ri: 0, reserved3: 0, ac, mv: Vec::new(), ap: IcaoParity(a) },
        5 => DF::ExtendedSquitterADSB(ADSB { capability: Capability::AG_AIRBORNE, icao24: ICAO(a), message: ME::Reserved1 { unused: 0 }, parity: ICAO(b) }),
        6 => DF::ExtendedSquitterTisB { cf: ControlField { field_type: ControlFieldType::TISB_FINE, aa: ICAO(a), me: ME::Reserved1 { unused: 0 } }, pi: ICAO(b) },
        7 => DF::CommBAltitudeReply { fs: any_fs(), dr: DownlinkRequest::None, um: um(), ac, bds: DF20DataSelector::default(), ap: IcaoParity(a) },
        8 => DF::CommBIdentityReply { fs: any_fs(), dr: DownlinkRequest::None, um: um(), id, bds: DF21DataSelector::default(), ap: IcaoParity(a) },
        9 => DF::ExtendedSquitterMilitary { af: 0 },
        _ => DF::CommDExtended { spare: 0, ke: KE::DownlinkELMTx, nd: 0, md: Vec::new(), parity: ICAO(b) },
    };
    Message { crc: if which == 5 || which == 6 { 0 } else { a }, df }
}
/// C07/C12: the text form of both address types is the six lowercase hex digits of the address, for every
/// 24-bit address (Display: used for the state-vector key; Serialize: what the JSON shows)
#[kani::proof]
#[kani::unwind(12)]
fn c07c12_display_of_addresses_is_hex6() {
    let a: u32 = kani::any(); kani::assume(a < (1 << 24));
    let s1 = ICAO(a).to_string();
    assert!(is_hex6(s1.as_bytes(), a));
    let s2 = IcaoParity(a).to_string();
    assert!(is_hex6(s2.as_bytes(), a));
}
#[kani::proof]
#[kani::unwind(14)]
fn c07c12_serialize_of_addresses_is_hex6() {
    let a: u32 = kani::any(); kani::assume(a < (1 << 24));
    let mut sh = Shape::new();
    assert!(serde::Serialize::serialize(&ICAO(a), Val { sh: &mut sh, depth: 1, cap: 2 }).is_ok());
    assert!(sh.icao24.set && is_hex6(&sh.icao24.b[..sh.icao24.n], a));
    let mut sh2 = Shape::new();
    assert!(serde::Serialize::serialize(&IcaoParity(a), Val { sh: &mut sh2, depth: 1, cap: 2 }).is_ok());
    assert!(sh2.icao24.set && is_hex6(&sh2.icao24.b[..sh2.icao24.n], a));
}
/// C12: the key of the state-vector table is the text of the DISPLAYED address field (oracle from the
/// serde attributes), for each of the nine address-carrying formats; no key for DF19 / DF24
fn key_is_displayed_address(which: u8) {
    let a: u32 = kani::any(); let b: u32 = kani::any();
    kani::assume(a < (1 << 24) && b < (1 << 24));
    let msg = any_record(which, a, b);
    let k = snapshot_icao24(&msg);
    match shown_icao24(&msg.df) {
        Some(x) => { let k = k.unwrap(); assert!(is_hex6(k.as_bytes(), x)); }
        None => assert!(k.is_none()),
    }
}
#[kani::proof]
#[kani::unwind(12)]
fn c12_table_key_is_displayed_address_df0() { key_is_displayed_address(0); }
#[kani::proof]
#[kani::unwind(12)]
fn c12_table_key_is_displayed_address_df4() { key_is_displayed_address(1); }
#[kani::proof]
#[kani::unwind(12)]
fn c12_table_key_is_displayed_address_df5() { key_is_displayed_address(2); }
#[kani::proof]
#[kani::unwind(12)]
fn c12_table_key_is_displayed_address_df11() { key_is_displayed_address(3); }
#[kani::proof]
#[kani::unwind(12)]
fn c12_table_key_is_displayed_address_df16() { key_is_displayed_address(4); }
#[kani::proof]
#[kani::unwind(12)]
fn c12_table_key_is_displayed_address_df17() { key_is_displayed_address(5); }
#[kani::proof]
#[kani::unwind(12)]
fn c12_table_key_is_displayed_address_df18() { key_is_displayed_address(6); }
#[kani::proof]
#[kani::unwind(12)]
fn c12_table_key_is_displayed_address_df20() { key_is_displayed_address(7); }
#[kani::proof]
#[kani::unwind(12)]
fn c12_table_key_is_displayed_address_df21() { key_is_displayed_address(8); }
#[kani::proof]
#[kani::unwind(12)]
fn c12_table_key_is_displayed_address_df19_none() { key_is_displayed_address(9); }
#[kani::proof]
#[kani::unwind(12)]
fn c12_table_key_is_displayed_address_df24_none() { key_is_displayed_address(10); }
/// C01: rendering an accepted message as text does not panic (Display of the surveillance / all-call /
/// extended-squitter records with every address and every altitude / identity code)
fn display_total(which: u8) {
    let a: u32 = kani::any(); let b: u32 = kani::any();
    kani::assume(a < (1 << 24) && b < (1 << 24));
    let m = any_record(which, a, b);
    let s = format!("{}", m);          // totality only: DF18 / DF19 legitimately render as an empty string
    kani::cover!(s.len() > 0 || which == 6 || which == 9);
}
#[kani::proof]
#[kani::unwind(40)]
fn c01_display_total_df4() { display_total(1); }
#[kani::proof]
#[kani::unwind(40)]
fn c01_display_total_df11() { display_total(3); }
#[kani::proof]
#[kani::unwind(40)]
fn c01_display_total_df17() { display_total(5); }
#[kani::proof]
#[kani::unwind(40)]
fn c01t_display_total_df0() { display_total(0); }
#[kani::proof]
#[kani::unwind(40)]
fn c01t_display_total_df5() { display_total(2); }
#[kani::proof]
#[kani::unwind(40)]
fn c01t_display_total_df16() { display_total(4); }
#[kani::proof]
#[kani::unwind(40)]
fn c01t_display_total_df18() { display_total(6); }
#[kani::proof]
#[kani::unwind(40)]
fn c01t_display_total_df20() { display_total(7); }
#[kani::proof]
#[kani::unwind(40)]
fn c01t_display_total_df21() { display_total(8); }
#[kani::proof]
#[kani::unwind(40)]
fn c01t_display_total_df19() { display_total(9); }
#[kani::proof]
#[kani::unwind(40)]
fn c01t_display_total_df24() { display_total(10); }
/// vacuity canary: must FAIL
#[kani::proof]
#[kani::unwind(12)]
fn canary_jsonkeys_key_never_some() { let m = any_record(0, 0xabcdef, 1); assert!(snapshot_icao24(&m).is_none()); }
