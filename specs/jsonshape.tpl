//@ unit jsonshape
//@ engine kani-cargo
//@ dep rs1090 = { path = "{REPO}/crates/rs1090", default-features = false }
//@ dep serde = { version = "1.0", features = ["derive"] }
//@ opt harness_timeout 3000
//@ opt timeout 9000
// C07 — structure of what the REAL serde-derive Serialize impls of rs1090 emit, per shape family:
// serialisable; one object; no duplicate key at any level; no non-finite number; `df` and `icao24` equal
// the downlink format and the six lowercase hex digits of the address.  The harness-side serializer
// (specs/_shape_ser.rs) is the contract; serde_json's text layer (one line, escaping) is trusted.
// Values with private fields are obtained from an all-zero bit pattern (valid for these plain-data types:
// integers, bools, Options, and enums whose first variant has discriminant 0) and their public fields set.
#![allow(dead_code, unused_variables, unused_mut, unused_imports, non_snake_case)]
use rs1090::decode::adsb::{ADSB, ME};
use rs1090::decode::bds::bds09::*;
use rs1090::decode::bds::bds65::*;
use rs1090::decode::bds::bds30::*;
use rs1090::decode::commb::{DF20DataSelector, DF21DataSelector};
use rs1090::decode::*;
//@ include _shape_ser.rs
//@ shown-oracle

fn hexd(v: u32) -> u8 { let d = (v & 0xf) as u8; if d < 10 { b'0' + d } else { b'a' + d - 10 } }
fn is_hex6(b: &[u8], a: u32) -> bool {
    b.len() == 6 && b[0] == hexd(a >> 20) && b[1] == hexd(a >> 16) && b[2] == hexd(a >> 12) && b[3] == hexd(a >> 8) && b[4] == hexd(a >> 4) && b[5] == hexd(a)
}
fn label_is(c: &Cap, s: &str) -> bool { let b = s.as_bytes(); if !c.set || c.n != b.len() { return false; } let mut i = 0; while i < b.len() { if c.b[i] != b[i] { return false; } i += 1; } true }
fn um() -> UtilityMessage { UtilityMessage { iis: 0, ids: UtilityMessageType::NoInformation } }
fn simple_record(which: u8, a: u32, b: u32) -> Message {
    let ac = AC13Field(kani::any());
    let id = IdentityCode(kani::any());
    let fs = FlightStatus::NoAlertNoSpiAirborne;
    let df = match which {
        0 => DF::ShortAirAirSurveillance { vs: 0, cc: 0, unused: 0, sl: 0, unused1: 0, ri: 0, unused2: 0, ac, ap: IcaoParity(a) },
        1 => DF::SurveillanceAltitudeReply { fs, dr: DownlinkRequest::None, um: um(), ac, ap: IcaoParity(a) },
        2 => DF::SurveillanceIdentityReply { fs, dr: DownlinkRequest::None, um: um(), id, ap: IcaoParity(a) },
        3 => DF::AllCallReply { capability: Capability::AG_AIRBORNE, icao: ICAO(a), p_icao: ICAO(b) },
        4 => DF::LongAirAirSurveillance { vs: 0, reserved1: 0, sl: 0, reserved2: 0, ri: 0, reserved3: 0, ac, mv: Vec::new(), ap: IcaoParity(a) },
        5 => DF::ExtendedSquitterADSB(ADSB { capability: Capability::AG_AIRBORNE, icao24: ICAO(a), message: ME::Reserved1 { unused: 0 }, parity: ICAO(b) }),
        6 => DF::ExtendedSquitterTisB { cf: ControlField { field_type: ControlFieldType::TISB_FINE, aa: ICAO(a), me: ME::Reserved1 { unused: 0 } }, pi: ICAO(b) },
        7 => DF::CommBAltitudeReply { fs, dr: DownlinkRequest::None, um: um(), ac, bds: DF20DataSelector::default(), ap: IcaoParity(a) },
        _ => DF::CommBIdentityReply { fs, dr: DownlinkRequest::None, um: um(), id, bds: DF21DataSelector::default(), ap: IcaoParity(a) },
    };
    Message { crc: if which == 5 || which == 6 { 0 } else { a }, df }
}
/// the obligations every accepted message must meet
fn well_formed_and_consistent(m: &Message, a: u32) {
    let (ok, sh) = shape_of(m);
    assert!(ok);                               // serialisable
    assert!(sh.top_is_map);                    // one JSON object
    assert!(!sh.dup_key);                      // no duplicate key at any level
    assert!(!sh.non_finite);                   // no NaN / infinity
    assert!(!sh.overflow);                     // (harness capacity not exceeded: else undecided)
    assert!(label_is(&sh.df, shown_df(&m.df).unwrap()));
    assert!(sh.icao24.set && is_hex6(&sh.icao24.b[..sh.icao24.n], a));
}
fn simple(which: u8) {
    let a: u32 = kani::any(); let b: u32 = kani::any();
    kani::assume(a < (1 << 24) && b < (1 << 24));
    let m = simple_record(which, a, b);
    well_formed_and_consistent(&m, a);
}
#[kani::proof]
#[kani::unwind(30)]
fn c07t_shape_df0() { simple(0); }
#[kani::proof]
#[kani::unwind(30)]
fn c07_shape_df4() { simple(1); }
#[kani::proof]
#[kani::unwind(30)]
fn c07t_shape_df5() { simple(2); }
#[kani::proof]
#[kani::unwind(30)]
fn c07_shape_df11() { simple(3); }
#[kani::proof]
#[kani::unwind(30)]
fn c07t_shape_df16() { simple(4); }
#[kani::proof]
#[kani::unwind(30)]
fn c07_shape_df17_reserved_me() { simple(5); }
#[kani::proof]
#[kani::unwind(30)]
fn c07t_shape_df18_reserved_me() { simple(6); }

fn adsb(a: u32, me: ME) -> Message { Message { crc: 0, df: DF::ExtendedSquitterADSB(ADSB { capability: Capability::AG_AIRBORNE, icao24: ICAO(a), message: me, parity: ICAO(0) }) } }
fn any_sign() -> Sign { if kani::any() { Sign::Positive } else { Sign::Negative } }
/// DF17 type code 19, every subtype 0..=7 (the decoder accepts all of them): velocity / airspeed values
/// within the ranges C08 proves
fn velocity(sub: u8, all_symbolic: bool) {
    let a: u32 = kani::any(); kani::assume(a < (1 << 24));
    let vel = match sub {
        0 => AirborneVelocitySubType::Reserved0(kani::any()),
        1 | 2 => { let e: i16 = 0; let n: i16 = 0;   // ew_vel / ns_vel are #[serde(skip)]
                   let g: f64 = kani::any(); let t: f64 = kani::any(); kani::assume(g >= 0. && g < 1500. && t >= 0. && t < 360.);
                   AirborneVelocitySubType::GroundSpeedDecoding(GroundSpeedDecoding { ew_sign: any_sign(), ew_vel: e as f64, ns_sign: any_sign(), ns_vel: n as f64, groundspeed: g, track: t }) }
        3 => { let h: Option<f64> = kani::any(); kani::assume(match h { Some(x) => x >= 0. && x < 360., None => true });
               AirborneVelocitySubType::AirspeedSubsonic(AirspeedSubsonicDecoding { status_heading: kani::any(), heading: h, airspeed_type: if kani::any() { AirspeedType::IAS } else { AirspeedType::TAS }, airspeed: kani::any() }) }
        4 => { let h: Option<f32> = kani::any(); kani::assume(match h { Some(x) => x >= 0. && x < 360., None => true });
               AirborneVelocitySubType::AirspeedSupersonic(AirspeedSupersonicDecoding { status_heading: kani::any(), heading: h, airspeed_type: if kani::any() { AirspeedType::IAS } else { AirspeedType::TAS }, airspeed: kani::any() }) }
        _ => AirborneVelocitySubType::Reserved1(kani::any()),
    };
    let v = if all_symbolic {
        AirborneVelocity { subtype: sub, intent_change: kani::any(), ifr_capability: kani::any(), nac_v: kani::any(), velocity: vel,
            vrate_src: if kani::any() { VerticalRateSource::BarometricPressureAltitude } else { VerticalRateSource::GeometricAltitude },
            vrate_sign: any_sign(), vertical_rate: kani::any(), reserved: 0, gnss_sign: any_sign(), geo_minus_baro: kani::any() }
    } else {
        AirborneVelocity { subtype: sub, intent_change: false, ifr_capability: false, nac_v: 0, velocity: vel, vrate_src: VerticalRateSource::GeometricAltitude,
            vrate_sign: Sign::Positive, vertical_rate: Some(64), reserved: 0, gnss_sign: Sign::Positive, geo_minus_baro: None }
    };
    well_formed_and_consistent(&adsb(a, ME::BDS09(v)), a);
}
#[kani::proof]
#[kani::unwind(30)]
fn c07t_shape_df17_velocity_subtype0_reserved() { velocity(0, true); }
#[kani::proof]
#[kani::unwind(30)]
fn c07t_shape_df17_velocity_subtype3_subsonic() { velocity(3, true); }
#[kani::proof]
#[kani::unwind(30)]
fn c07t_shape_df17_velocity_subtype4_supersonic() { velocity(4, true); }
#[kani::proof]
#[kani::unwind(30)]
fn c07t_shape_df17_velocity_subtype5_7_reserved() { velocity(5, true); }

/// DF17 type code 31 (operational status): subtype 0 airborne / 1 surface with every ADS-B version code
/// 0..=7, and the reserved subtypes 2..=7
fn opstatus(kind: u8) {
    let a: u32 = kani::any(); kani::assume(a < (1 << 24));
    let st = match kind {
        0 => { let mut s: OperationStatusAirborne = unsafe { core::mem::zeroed() };
               s.version = match kani::any::<u8>() % 4 { 0 => ADSBVersionAirborne::DOC9871AppendixA(Empty {}), 1 => ADSBVersionAirborne::DOC9871AppendixB(unsafe { core::mem::zeroed() }),
                   2 => ADSBVersionAirborne::DOC9871AppendixC(unsafe { core::mem::zeroed() }), _ => { let id: u8 = kani::any(); kani::assume(id >= 3 && id <= 7); ADSBVersionAirborne::Reserved { id } } };
               AircraftOperationStatus::Airborne(s) }
        1 => { let mut s: OperationStatusSurface = unsafe { core::mem::zeroed() };
               s.version = match kani::any::<u8>() % 4 { 0 => ADSBVersionSurface::DOC9871AppendixA(Empty {}), 1 => ADSBVersionSurface::DOC9871AppendixB(unsafe { core::mem::zeroed() }),
                   2 => ADSBVersionSurface::DOC9871AppendixC(unsafe { core::mem::zeroed() }), _ => { let id: u8 = kani::any(); kani::assume(id >= 3 && id <= 7); ADSBVersionSurface::Reserved { id } } };
               AircraftOperationStatus::Surface(s) }
        _ => AircraftOperationStatus::Reserved(kani::any(), kani::any()),
    };
    well_formed_and_consistent(&adsb(a, ME::BDS65(st)), a);
}
#[kani::proof]
#[kani::unwind(30)]
fn c07_shape_df17_opstatus_airborne_all_versions() { opstatus(0); }
#[kani::proof]
#[kani::unwind(30)]
fn c07_shape_df17_opstatus_surface_all_versions() { opstatus(1); }
#[kani::proof]
#[kani::unwind(30)]
fn c07_shape_df17_opstatus_subtype2_7_reserved() { opstatus(2); }

/// vacuity canary: must FAIL
#[kani::proof]
#[kani::unwind(30)]
fn canary_jsonshape_no_icao_key() { let m = simple_record(1, 0xabcdef, 0); let (ok, sh) = shape_of(&m); assert!(!sh.icao24.set); }
