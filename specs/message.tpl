//@ unit message
//@ engine kani
// C01 (length rule, totality of the hand-written entry points) and C02 (DF17 accepted iff the
// checksum is zero; the checksum is what is handed to DF as context and stored as Message.crc).
// Functions under contract (verbatim): Message::from_reader_with_ctx, Message::from_reader
// (DekuContainerRead), Message::try_from(&[u8]), Message::from_bytes, modes_checksum + CRC_TABLE
// (the latter's functional contract is discharged by the Verus unit `crc`; here it is the callee),
// IcaoParity.0 map closure.
#![allow(dead_code, unused_variables, unused_mut, unused_imports, non_snake_case, unused_parens)]
//@ section kani
// ---- trusted stand-ins (contract R2 for read_bits; derive-generated DF reader = any result) ----
#[derive(Debug, Clone, Copy, PartialEq, Eq, kani::Arbitrary)]
pub enum DekuError { Incomplete, Parse, InvalidParam, Assertion, AssertionNoStr, IdVariantNotFound, Io }
pub const WIN: usize = 32;
/// byte-granular reader over at most 32 input bytes. TRUSTED CONTRACT of deku::reader::Reader:
/// read_bits(n) (n > 0) returns Err(Incomplete) when fewer than n bits remain, else Some(bits)
/// holding exactly the next n bits, and advances bits_read by n; skip_bits likewise.
pub struct BitReader { pub data: [u8; WIN], pub len: usize, pub bits_read: usize }
pub struct Bits(Vec<u8>);
impl Bits { pub fn into_vec(self) -> Vec<u8> { self.0 } }
impl BitReader {
    pub fn read_bits(&mut self, n: usize) -> Result<Option<Bits>, DekuError> {
        if n == 0 { return Ok(None); }
        // only whole-byte reads at byte positions occur in the code under contract
        assert!(n % 8 == 0 && self.bits_read % 8 == 0);
        if self.bits_read + n > self.len * 8 { return Err(DekuError::Incomplete); }
        let a = self.bits_read / 8;
        let v = self.data[a..a + n / 8].to_vec();
        self.bits_read += n;
        Ok(Some(Bits(v)))
    }
    pub fn skip_bits(&mut self, n: usize) -> Result<(), DekuError> {
        if self.bits_read + n > self.len * 8 { return Err(DekuError::Incomplete); }
        self.bits_read += n;
        Ok(())
    }
}
pub mod deku {
    pub mod no_std_io {
        pub struct Cursor { pub data: [u8; super::super::WIN], pub len: usize }
        impl Cursor {
            pub fn new<T: AsRef<[u8]>>(b: T) -> Cursor {
                let s = b.as_ref();
                let mut data = [0u8; super::super::WIN];
                assert!(s.len() <= super::super::WIN);
                let mut i = 0;
                while i < s.len() { data[i] = s[i]; i += 1; }
                Cursor { data, len: s.len() }
            }
        }
    }
    pub mod reader {
        pub struct Reader;
        impl Reader {
            pub fn new(c: &mut super::no_std_io::Cursor) -> super::super::BitReader {
                super::super::BitReader { data: c.data, len: c.len, bits_read: 0 }
            }
        }
    }
}
use deku::reader::Reader;
type R = deku::no_std_io::Cursor;
/// stand-in for the derive-generated DF reader: any outcome; records what it was given
pub struct DF { pub ctx: u32, pub data: [u8; WIN], pub len: usize, pub pos: usize }
impl DF {
    pub fn from_reader_with_ctx(reader: &mut BitReader, crc: u32) -> Result<DF, DekuError> {
        if kani::any() { return Err(kani::any()); }
        // the real reader consumes the whole frame
        let n = reader.len * 8;
        let pos = reader.bits_read;
        reader.bits_read = n;
        Ok(DF { ctx: crc, data: reader.data, len: reader.len, pos })
    }
}
//@ extract crates/rs1090/src/decode/crc.rs const CRC_TABLE
//@ extract crates/rs1090/src/decode/crc.rs fn modes_checksum
// CONTRACT of modes_checksum as used by its caller (modular step): Err iff bits/8 < 3 or the
// slice is shorter than bits/8; otherwise Ok(v), v < 2^24, v a function of message[..bits/8]
// (the Verus unit `crc` proves v == polyrem(message[..bits/8]); `c02_checksum_contract_shape`
// below proves the shape used here on the real function).  The stand-in returns an arbitrary such
// v and records the arguments so the harness can check what the caller passed.
//@ allow "kani::stub(modes_checksum"
pub static mut CK_CALLS: usize = 0;
pub static mut CK_BITS: usize = 0;
pub static mut CK_MSG: [u8; WIN] = [0; WIN];
pub static mut CK_RET: u32 = 0;
pub fn modes_checksum_contract(message: &[u8], bits: usize) -> Result<u32, DekuError> {
    let n = bits / 8;
    if (n < 3) || (message.len() < n) { return Err(DekuError::Incomplete); }
    assert!(n <= WIN);
    let v: u32 = kani::any();
    kani::assume(v < 0x100_0000);
    unsafe {
        CK_CALLS += 1; CK_BITS = bits; CK_RET = v;
        let mut i = 0;
        while i < n { CK_MSG[i] = message[i]; i += 1; }
    }
    Ok(v)
}
/// the checksum the callee returned for data[..n], provided it was called exactly once on exactly that
fn expected_crc(data: &[u8; WIN], n: usize) -> u32 {
    unsafe {
        assert!(CK_CALLS == 1 && CK_BITS == n * 8);
        let mut i = 0;
        while i < n { assert!(CK_MSG[i] == data[i]); i += 1; }
        CK_RET
    }
}
//@ extract crates/rs1090/src/decode/mod.rs struct Message
//@ sub "Self::from_reader_with_ctx\(reader, \(\)\)" "Self::from_reader_with_ctx(reader, ())"
//@ extract crates/rs1090/src/decode/mod.rs fn from_reader impl=Message trait=DekuContainerRead wrap
//@ sub "input: \(&\[u8\], usize\)" "input: (&[u8], usize)"
//@ extract crates/rs1090/src/decode/mod.rs fn from_bytes impl=Message trait=DekuContainerRead wrap
//@ extract crates/rs1090/src/decode/mod.rs fn from_reader_with_ctx impl=Message trait=DekuReader wrap
//@ sub "Self::Error" "DekuError"
//@ sub "<Self as DekuContainerRead>::from_reader" "Self::from_reader"
//@ extract crates/rs1090/src/decode/mod.rs fn try_from impl=Message trait=TryFrom wrap
//@ extract crates/rs1090/src/decode/mod.rs closure IcaoParity.0 map name=IcaoParity__map sig="(_v: u32, crc: u32) -> Result<u32, DekuError>"

pub struct Outcome { pub ok: bool, pub crc: u32, pub ctx: u32, pub df_saw: [u8; WIN], pub df_len: usize, pub df_pos: usize }
fn outcome(r: Result<Message, DekuError>) -> Outcome {
    match r {
        Ok(m) => Outcome { ok: true, crc: m.crc, ctx: m.df.ctx, df_saw: m.df.data, df_len: m.df.len, df_pos: m.df.pos },
        Err(_) => Outcome { ok: false, crc: 0, ctx: 0, df_saw: [0; WIN], df_len: 0, df_pos: 0 },
    }
}
fn run_try_from(b: &[u8]) -> Outcome { outcome(Message::try_from(b)) }
fn run_from_bytes(b: &[u8]) -> Outcome { outcome(Message::from_bytes((b, 0)).map(|x| x.1)) }
fn icao_parity_map(v: u32, crc: u32) -> Option<u32> { IcaoParity__map(v, crc).ok() }
//@ section native
pub const WIN: usize = 32;
use rs1090::prelude::*;
pub struct Outcome { pub ok: bool, pub crc: u32, pub ctx: u32, pub df_saw: [u8; WIN], pub df_len: usize, pub df_pos: usize }
fn outcome(r: Result<Message, DekuError>, b: &[u8]) -> Outcome {
    let n = if !b.is_empty() && b[0] & 0x80 != 0 { 14 } else { 7 };
    let mut saw = [0u8; WIN];
    for i in 0..n.min(b.len()) { saw[i] = b[i]; }
    match r {
        Ok(m) => Outcome { ok: true, crc: m.crc, ctx: m.crc, df_saw: saw, df_len: n, df_pos: 0 },
        Err(_) => Outcome { ok: false, crc: 0, ctx: 0, df_saw: [0; WIN], df_len: 0, df_pos: 0 },
    }
}
fn run_try_from(b: &[u8]) -> Outcome { outcome(Message::try_from(b), b) }
fn run_from_bytes(b: &[u8]) -> Outcome { outcome(Message::from_bytes((b, 0)).map(|x| x.1), b) }
fn expected_crc(data: &[u8; WIN], n: usize) -> u32 { rs1090::decode::crc::modes_checksum(&data[..n], n * 8).unwrap() }
fn modes_checksum(b: &[u8], bits: usize) -> Result<u32, DekuError> { rs1090::decode::crc::modes_checksum(b, bits) }
fn icao_parity_map(v: u32, crc: u32) -> Option<u32> { Some(crc) }
//@ section common

fn any_input() -> ([u8; WIN], usize) {
    let data: [u8; WIN] = kani::any();
    let len: usize = kani::any();
    kani::assume(len <= WIN);
    (data, len)
}
fn frame_len(b0: u8) -> usize { if b0 & 0x80 != 0 { 14 } else { 7 } }

/// C01: Message::try_from is total on every byte string of length 0..=32 and accepts only the
/// length its downlink format prescribes; C02: what it accepts carries the checksum of the frame,
/// hands exactly that to the DF reader (-> IcaoParity), and DF17 is accepted iff the checksum is 0
#[kani::proof]
#[kani::unwind(34)]
#[kani::stub(modes_checksum, modes_checksum_contract)]
fn c01c02_try_from_length_rule_and_crc() {
    let (data, len) = any_input();
    let o = run_try_from(&data[..len]);
    if o.ok {
        let n = frame_len(data[0]);
        assert!(len == n);                                         // length rule
        let c = expected_crc(&data, n);                            // checksum of exactly data[..n], n*8 bits
        assert!(o.crc == c);                                       // Message.crc is the frame checksum
        assert!(o.ctx == c);                                       // and it is the context given to DF / IcaoParity
        assert!(!(data[0] >> 3 == 17 && c != 0));                  // DF17 with non-zero syndrome never accepted
        assert!(o.df_len == n && o.df_pos == 0);                   // DF reader restarts at bit 0 of exactly the frame
        let mut i = 0;
        while i < n { assert!(o.df_saw[i] == data[i]); i += 1; }
    }
    kani::cover!(o.ok && data[0] >> 3 == 17);
    kani::cover!(o.ok && data[0] >> 3 == 20);
    kani::cover!(o.ok && len == 7);
}

/// C02: a frame is rejected by the CRC logic only as DF17 with non-zero remainder: with the right
/// length, every other frame reaches the DF reader (whose stand-in may accept it)
#[kani::proof]
#[kani::unwind(34)]
#[kani::stub(modes_checksum, modes_checksum_contract)]
fn c02_only_df17_is_crc_filtered() {
    let (data, len) = any_input();
    kani::assume(len >= 1 && len == frame_len(data[0]));
    let o = run_try_from(&data[..len]);
    let c = expected_crc(&data, len);
    if data[0] >> 3 == 17 && c != 0 { assert!(!o.ok); }
    kani::cover!(o.ok && data[0] >> 3 == 17 && c == 0);
    kani::cover!(o.ok && data[0] >> 3 != 17 && c != 0);
    kani::cover!(!o.ok && data[0] >> 3 == 17 && c == 0xff_ffff);
}

/// C01/C07: Message::from_bytes (used by TimedMessage / dedup) — total; accepts only when at least
/// the prescribed length is present and decodes exactly that prefix
#[kani::proof]
#[kani::unwind(34)]
#[kani::stub(modes_checksum, modes_checksum_contract)]
fn c01c02_from_bytes_total_and_crc() {
    let (data, len) = any_input();
    let o = run_from_bytes(&data[..len]);
    if o.ok {
        let n = frame_len(data[0]);
        assert!(len >= n);
        let c = expected_crc(&data, n);
        assert!(o.crc == c && o.ctx == c);
        assert!(!(data[0] >> 3 == 17 && c != 0));
    }
    kani::cover!(o.ok);
}

/// the shape of the callee contract used above holds for the real modes_checksum (any slice up to
/// 32 bytes, any bit count): Err exactly when too short, result below 2^24, no panic
#[kani::proof]
#[kani::unwind(34)]
fn c02_checksum_contract_shape() {
    let (data, len) = any_input();
    let bits: usize = kani::any();
    kani::assume(bits <= 8 * WIN + 7);
    let r = modes_checksum(&data[..len], bits);
    let n = bits / 8;
    assert!(r.is_err() == (n < 3 || len < n));
    if let Ok(v) = r { assert!(v < 0x100_0000); }
}

/// bit-serial long division by the Mode S generator (same definition as the Verus spec `polyrem`)
fn polyrem_exec(b: &[u8]) -> u32 {
    let mut r: u32 = 0;
    let mut i = 0;
    while i < b.len() {
        let mut k = 0;
        while k < 8 {
            let bit = ((b[i] >> (7 - k)) & 1) as u32;
            let s = (r << 1) | bit;
            r = if s & 0x100_0000 != 0 { s ^ 0x1FF_F409 } else { s };
            k += 1;
        }
        i += 1;
    }
    r
}
/// C02 (bit-precise twin of the Verus contract, complete for the two frame lengths Mode S uses;
/// supplies a concrete frame when a table entry or the loop is wrong)
#[kani::proof]
#[kani::unwind(16)]
fn c02_checksum_is_polynomial_remainder_short() {
    let data: [u8; 7] = kani::any();
    assert!(modes_checksum(&data, 56) == Ok(polyrem_exec(&data)));
}
#[kani::proof]
#[kani::unwind(16)]
fn c02_checksum_is_polynomial_remainder_long() {
    let data: [u8; 14] = kani::any();
    assert!(modes_checksum(&data, 112) == Ok(polyrem_exec(&data)));
}

/// C02: the address/parity field reports the context value (the checksum), whatever bits were read
#[kani::proof]
fn c02_icao_parity_is_checksum() {
    let v: u32 = kani::any();
    let crc: u32 = kani::any();
    assert!(icao_parity_map(v, crc) == Some(crc));
}

/// vacuity canary: must FAIL (claims no DF17 frame is ever accepted)
#[kani::proof]
#[kani::unwind(34)]
#[kani::stub(modes_checksum, modes_checksum_contract)]
fn canary_message_df17_never_ok() {
    let (data, len) = any_input();
    let o = run_try_from(&data[..len]);
    assert!(!(o.ok && data[0] >> 3 == 17));
}
