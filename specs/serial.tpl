//@ unit serial
//@ engine kani
//@ opt harness_timeout 1500
// C16 (serial sentence) — crates/jet1090/src/source.rs: Source::serial and build_serial, verbatim, with the
// real std String, format! and DefaultHasher (SipHash) executed symbolically.
// "The receiver serial is a pure function of the endpoint's host and port: the string form and the table
// form of the same endpoint give the same serial."  Source::from_str produces Tcp(Short(format!("{}:{}",
// host, port))) (by reading; from_str itself is not under contract: url / regex are opaque).
#![allow(dead_code, unused_variables, unused_mut, unused_imports, non_snake_case)]
use std::collections::hash_map::DefaultHasher;
use std::hash::{Hash, Hasher};
#[derive(Debug, Clone, PartialEq)]
pub struct SeroParams { pub token: String }
#[derive(Debug, Clone, Copy, PartialEq)]
pub struct Position { pub latitude: f64, pub longitude: f64 }
//@ sub "(?m)^    (\w+: )" "    pub \1"
//@ extract crates/jet1090/src/source.rs struct AddressStruct derive="Debug, Clone, PartialEq"
//@ extract crates/jet1090/src/source.rs enum AddressPath derive="Debug, Clone, PartialEq"
//@ sub "(?m)^    (\w+: )" "    pub \1"
//@ extract crates/jet1090/src/source.rs struct WebsocketStruct derive="Debug, Clone, PartialEq"
//@ extract crates/jet1090/src/source.rs enum WebsocketPath derive="Debug, Clone, PartialEq"
//@ extract crates/jet1090/src/source.rs enum Address derive="Debug, Clone, PartialEq"
//@ extract crates/jet1090/src/source.rs struct Source derive="Debug, Clone"
//@ extract crates/jet1090/src/source.rs fn build_serial rules=
//@ extract crates/jet1090/src/source.rs fn serial impl=Source wrap rules=

/// a host name of exactly 2 arbitrary printable ASCII bytes
fn any_host() -> String {
    let b0: u8 = kani::any(); let b1: u8 = kani::any();
    kani::assume(b0 >= 0x21 && b0 < 0x7f && b1 >= 0x21 && b1 < 0x7f);
    let mut s = String::with_capacity(2);
    s.push(b0 as char); s.push(b1 as char);
    s
}
fn src(a: Address) -> Source { Source { address: a, name: None, reference: None, altitude: None } }
/// the table form {address, port, jump} and the string form "address:port" of the same TCP endpoint have the
/// same serial, whatever the jump host, name, reference or altitude
//@ harness bounded="host names of exactly 2 printable ASCII bytes; every port; jump absent or a 2-byte host"
#[kani::proof]
#[kani::unwind(16)]
fn c16_tcp_table_form_and_string_form_same_serial() {
    let host = any_host();
    let port: u16 = kani::any();
    let jump = if kani::any() { Some(any_host()) } else { None };
    let long = src(Address::Tcp(AddressPath::Long(AddressStruct { address: host.clone(), port, jump })));
    let short = src(Address::Tcp(AddressPath::Short(format!("{}:{}", host, port))));
    assert!(long.serial() == short.serial());
}
/// the serial does not depend on name / reference / altitude (it is a function of the address only)
//@ harness bounded="host names of exactly 2 printable ASCII bytes"
#[kani::proof]
#[kani::unwind(16)]
fn c16_serial_ignores_name_reference_altitude() {
    let host = any_host();
    let a = Address::Udp(host);
    let s1 = Source { address: a.clone(), name: None, reference: None, altitude: None };
    let s2 = Source { address: a, name: Some(any_host()), reference: Some(Position { latitude: kani::any(), longitude: kani::any() }), altitude: kani::any() };
    assert!(s1.serial() == s2.serial());
}
/// vacuity canary: must FAIL (different ports must be able to give different serials)
#[kani::proof]
#[kani::unwind(16)]
fn canary_serial_is_constant() {
    let a = src(Address::Udp(String::from("a:1")));
    let b = src(Address::Udp(String::from("a:2")));
    assert!(a.serial() == b.serial());
}
