//@ unit snapstep
//@ engine kani-cargo
//@ dep rs1090 = { path = "{REPO}/crates/rs1090", default-features = false }
//@ dep serde = { version = "1.0", features = ["derive"] }
//@ opt harness_timeout 1800
// C12 — per-record step contract of jet1090's state-vector table: snapshot.rs `update_snapshot`,
// `StateVectors::new`, `icao24`, `Snapshot`, `StateVectors`, verbatim, on the REAL rs1090 message types
// and the real std BTreeMap<String, _>.
// Rewrites (stated, counted as RS): R6 `async fn` / `.await` removed and `&Mutex<Jet1090>` -> `&mut Jet1090`
// reduced to the one field the function touches (state_vectors); `aircraftdb::Aircraft` is a stand-in
// struct with the same two public fields; rs1090::data::tail::tail (registration heuristics, string
// formatting) is replaced by a stand-in returning any Option<String> (it only feeds `registration`).
#![allow(dead_code, unused_variables, unused_mut, unused_imports, non_snake_case)]
// R7b stand-in for std::collections::BTreeMap<String, V> (TRUSTED to behave like the std map for the operations
// offered: new / get / insert / len / entry().or_insert(); the real map exhausts the CBMC budget): at most 2
// entries, array-backed, capacity asserted.
pub struct BTreeMap<K: PartialEq, V> { pub k: [Option<K>; 2], pub v: [Option<V>; 2] }
pub struct Entry<'a, K: PartialEq, V> { m: &'a mut BTreeMap<K, V>, key: K }
impl<K: PartialEq, V> BTreeMap<K, V> {
    pub fn new() -> Self { BTreeMap { k: [None, None], v: [None, None] } }
    fn slot(&self, key: &K) -> Option<usize> { let mut i = 0; while i < 2 { if let Some(x) = &self.k[i] { if x == key { return Some(i); } } i += 1; } None }
    pub fn len(&self) -> usize { let mut n = 0; let mut i = 0; while i < 2 { if self.k[i].is_some() { n += 1; } i += 1; } n }
    pub fn is_empty(&self) -> bool { self.len() == 0 }
    pub fn get(&self, key: &K) -> Option<&V> { match self.slot(key) { Some(i) => self.v[i].as_ref(), None => None } }
    pub fn insert(&mut self, key: K, val: V) -> Option<V> {
        if let Some(i) = self.slot(&key) { return self.v[i].replace(val); }
        let mut i = 0; while i < 2 { if self.k[i].is_none() { self.k[i] = Some(key); self.v[i] = Some(val); return None; } i += 1; }
        panic!("stand-in map capacity exceeded")
    }
    pub fn entry(&mut self, key: K) -> Entry<'_, K, V> { Entry { m: self, key } }
}
impl<'a, K: PartialEq, V> Entry<'a, K, V> {
    pub fn or_insert(self, default: V) -> &'a mut V {
        let i = match self.m.slot(&self.key) { Some(i) => { core::mem::forget(default); i } None => { let mut j = 0; let mut f = 2; while j < 2 { if f == 2 && self.m.k[j].is_none() { f = j; } j += 1; } assert!(f < 2, "stand-in map capacity exceeded"); self.m.k[f] = Some(self.key); self.m.v[f] = Some(default); f } };
        self.m.v[i].as_mut().unwrap()
    }
}
use rs1090::decode::bds::bds09::AirborneVelocitySubType::{AirspeedSubsonic, GroundSpeedDecoding};
use rs1090::decode::bds::bds09::AirspeedType::{IAS, TAS};
use rs1090::decode::adsb::{ADSB, ME};
use rs1090::decode::bds::bds65::AircraftOperationStatus;
use rs1090::decode::commb::{DF20DataSelector, DF21DataSelector};
use rs1090::decode::{IdentityCode, SensorMetadata};
use rs1090::decode::*;
use rs1090::decode::DF::*;
pub mod aircraftdb { #[derive(Debug)] pub struct Aircraft { pub typecode: Option<String>, pub registration: Option<String> } }
pub struct Jet1090 { pub state_vectors: BTreeMap<String, StateVectors> }
pub fn tail_any(_hexid: u32) -> Option<String> { if kani::any() { None } else { Some(String::new()) } }
//@ allow "kani::stub(rs1090::data::tail::tail"
//@ extract crates/jet1090/src/snapshot.rs struct Snapshot derive="Debug"
//@ extract crates/jet1090/src/snapshot.rs struct StateVectors derive="Debug"
//@ extract crates/jet1090/src/snapshot.rs fn new impl=StateVectors wrap
//@ extract crates/jet1090/src/snapshot.rs fn icao24
//@ sub "pub async fn" "pub fn"
//@ sub "&Mutex<Jet1090>" "&mut Jet1090"
//@ sub "&mut states\.lock\(\)\.await\.state_vectors" "&mut states.state_vectors"
//@ extract crates/jet1090/src/snapshot.rs fn update_snapshot

fn um() -> UtilityMessage { UtilityMessage { iis: 0, ids: UtilityMessageType::NoInformation } }
fn key6(a: u32) -> String {
    let mut s = String::with_capacity(6);
    let mut i = 0;
    while i < 6 { let d = ((a >> (20 - 4 * i)) & 0xf) as u8; s.push((if d < 10 { b'0' + d } else { b'a' + d - 10 }) as char); i += 1; }
    s
}
fn entry(ts: u64, key: String, count: usize, alt: Option<u16>) -> StateVectors {
    let db: BTreeMap<String, aircraftdb::Aircraft> = BTreeMap::new();
    let mut sv = StateVectors::new(ts, key, &db);
    sv.cur.count = count; sv.cur.altitude = alt;
    sv
}
/// one record of aircraft A (surveillance altitude reply, DF4) arrives while the table holds an entry of
/// ANOTHER aircraft B and possibly an older entry of A:
///  - B's entry is untouched, no third key appears (non-interference / frame);
///  - A has exactly one entry, keyed by the displayed address; its count grows by one, lastseen is the
///    record's time, firstseen is kept (or is the record's time when the entry is new); the altitude is
///    the record's own.
fn step_df4(a: u32, b: u32) {
    let had_own: bool = kani::any();
    let (c0, f0, l0): (usize, u64, u64) = (kani::any(), kani::any(), kani::any());
    kani::assume(c0 < 1_000_000);
    let (cb, fb, lb, ab): (usize, u64, u64, Option<u16>) = (kani::any(), kani::any(), kani::any(), kani::any());
    let mut app = Jet1090 { state_vectors: BTreeMap::new() };
    let mut eb = entry(fb, key6(b), cb, ab); eb.cur.lastseen = lb;
    app.state_vectors.insert(key6(b), eb);
    if had_own { let mut ea = entry(f0, key6(a), c0, None); ea.cur.lastseen = l0; app.state_vectors.insert(key6(a), ea); }
    let ts: f64 = kani::any(); kani::assume(ts >= 0. && ts < 4e9);
    let alt: u16 = kani::any();
    let mut tm = TimedMessage { timestamp: ts, frame: Vec::new(),
        message: Some(Message { crc: a, df: DF::SurveillanceAltitudeReply { fs: FlightStatus::NoAlertNoSpiAirborne, dr: DownlinkRequest::None, um: um(), ac: AC13Field(alt), ap: IcaoParity(a) } }),
        metadata: Vec::new(), decode_time: None };
    let db: BTreeMap<String, aircraftdb::Aircraft> = BTreeMap::new();
    update_snapshot(&mut app, &mut tm, &db);
    assert!(app.state_vectors.len() == 2);
    let eb = app.state_vectors.get(&key6(b)).unwrap();
    assert!(eb.cur.count == cb && eb.cur.firstseen == fb && eb.cur.lastseen == lb && eb.cur.altitude == ab && eb.cur.squawk.is_none() && eb.hist.is_empty());
    let ea = app.state_vectors.get(&key6(a)).unwrap();
    assert!(ea.cur.count == if had_own { c0 + 1 } else { 1 });
    assert!(ea.cur.lastseen == ts as u64);
    assert!(ea.cur.firstseen == if had_own { f0 } else { ts as u64 });
    assert!(ea.cur.altitude == Some(alt));
    assert!(ea.cur.icao24.as_bytes() == key6(a).as_bytes());
    kani::cover!(had_own && l0 > ts as u64);
    kani::cover!(!had_own);
    // the drop glue of the full message enum is not part of the obligation
    core::mem::forget(app); core::mem::forget(tm); core::mem::forget(db);
}
//@ harness bounded="table with one foreign entry and zero or one own entry; the two addresses are fixed (the keying by displayed address is proved for every address in unit jsonkeys)"
#[kani::proof]
#[kani::unwind(12)]
#[kani::stub(rs1090::data::tail::tail, tail_any)]
fn c12_step_df4_updates_own_entry_only() { step_df4(0x4b1a01, 0x4b1a00); }
/// vacuity canary: must FAIL
#[kani::proof]
#[kani::unwind(12)]
#[kani::stub(rs1090::data::tail::tail, tail_any)]
fn canary_snapshot_table_stays_empty() {
    let mut app = Jet1090 { state_vectors: BTreeMap::new() };
    let mut tm = TimedMessage { timestamp: 1., frame: Vec::new(),
        message: Some(Message { crc: 0xabcdef, df: DF::SurveillanceAltitudeReply { fs: FlightStatus::NoAlertNoSpiAirborne, dr: DownlinkRequest::None, um: um(), ac: AC13Field(1), ap: IcaoParity(0xabcdef) } }),
        metadata: Vec::new(), decode_time: None };
    let db: BTreeMap<String, aircraftdb::Aircraft> = BTreeMap::new();
    update_snapshot(&mut app, &mut tm, &db);
    assert!(app.state_vectors.is_empty());
    core::mem::forget(app); core::mem::forget(tm); core::mem::forget(db);
}
