//@ unit tail
//@ engine kani
//@ opt harness_timeout 900
// C14 (totality half) — crates/rs1090/src/data/tail.rs, verbatim: n_reg, n_letters, n_letter, ja_reg,
// hl_reg, numeric_reg + NumericMapping::new, stride_reg + StrideMapping::new, tail, and the two mapping
// tables (the `vec![...]` initialisers of NUMERIC_MAPPINGS / STRIDE_MAPPINGS, rebuilt through the real
// constructors inside the proof).
// R7-style stand-ins (stated, counted as RS): std String -> array-backed `Str` keeping the exact LENGTH
// and bytes (capacity 32); `x.to_string()` of u32 / char -> Str of its decimal digits / the char;
// `s.chars().nth(i)` / `s.chars().position(p)` on the ASCII alphabets -> byte indexing (same result for
// ASCII, checked: every byte < 128); `Lazy<Vec<T>>` statics -> functions returning the same `vec![...]`
// element list as an array; `format!` -> empty Str (R4f: the text is not part of the totality claim, every
// LENGTH that is used for slicing comes from to_string, which is exact).
#![allow(dead_code, unused_variables, unused_mut, unused_imports, non_snake_case, unused_parens)]
#[derive(Clone, Copy, Debug, PartialEq)]
pub struct Str { pub b: [u8; 32], pub n: usize }
impl Str {
    pub fn new() -> Str { Str { b: [0; 32], n: 0 } }
    pub fn from(s: &str) -> Str { let mut r = Str::new(); r.push_bytes(s.as_bytes()); r }
    fn push_bytes(&mut self, x: &[u8]) { let mut i = 0; while i < x.len() { assert!(self.n < 32); self.b[self.n] = x[i]; self.n += 1; i += 1; } }
    pub fn push_str(&mut self, o: &Str) { let mut i = 0; while i < o.n { assert!(self.n < 32); self.b[self.n] = o.b[i]; self.n += 1; i += 1; } }
    pub fn len(&self) -> usize { self.n }
    pub fn chars(&self) -> StrChars<'_> { StrChars { s: self } }
}
pub struct StrChars<'a> { s: &'a Str }
impl<'a> StrChars<'a> {
    pub fn nth(&self, i: usize) -> Option<char> { assert!(self.s.n == 0 || self.s.b[0] < 128); if i < self.s.n { Some(self.s.b[i] as char) } else { None } }
    pub fn position<F: Fn(char) -> bool>(&self, f: F) -> Option<usize> { let mut i = 0; while i < self.s.n { if f(self.s.b[i] as char) { return Some(i); } i += 1; } None }
}
impl core::ops::Add<&Str> for Str { type Output = Str; fn add(mut self, o: &Str) -> Str { self.push_str(o); self } }
/// prefix slice `&s[..k]`: panics exactly like the real one when k > len
impl core::ops::Index<core::ops::RangeTo<usize>> for Str { type Output = [u8]; fn index(&self, r: core::ops::RangeTo<usize>) -> &[u8] { assert!(r.end <= self.n); &self.b[..r.end] } }
pub trait ToStr { fn to_str(&self) -> Str; }
impl ToStr for u32 { fn to_str(&self) -> Str { let mut v = *self; let mut d = [0u8; 10]; let mut k = 0; loop { d[k] = b'0' + (v % 10) as u8; k += 1; v /= 10; if v == 0 { break; } } let mut r = Str::new(); while k > 0 { k -= 1; r.b[r.n] = d[k]; r.n += 1; } r } }
impl ToStr for char { fn to_str(&self) -> Str { let mut r = Str::new(); assert!((*self as u32) < 128); r.b[0] = *self as u8; r.n = 1; r } }
pub trait AsciiNth { fn nth_ascii(&self, i: usize) -> Option<char>; }
impl AsciiNth for str { fn nth_ascii(&self, i: usize) -> Option<char> { let b = self.as_bytes(); if i < b.len() { assert!(b[i] < 128); Some(b[i] as char) } else { None } } }
//@ count N_NUM crates/rs1090/src/data/tail.rs "NumericMapping::new\("
//@ count N_STRIDE crates/rs1090/src/data/tail.rs "StrideMapping::new\("
//@ gsub "String::new\(\)" "Str::new()"
//@ gsub "String::from\(" "Str::from("
//@ extract crates/rs1090/src/data/tail.rs const LIMITED_ALPHABET
//@ extract crates/rs1090/src/data/tail.rs const FULL_ALPHABET
//@ sub "template: String" "template: Str"
//@ extract crates/rs1090/src/data/tail.rs struct NumericMapping
//@ sub "template: String" "template: Str"
//@ extract crates/rs1090/src/data/tail.rs fn new impl=NumericMapping wrap
//@ sub ": String" ": Str"
//@ extract crates/rs1090/src/data/tail.rs struct StrideMapping
//@ sub ": String" ": Str"
//@ extract crates/rs1090/src/data/tail.rs fn new impl=StrideMapping wrap
//@ sub "static NUMERIC_MAPPINGS: Lazy<Vec<NumericMapping>> = Lazy::new\(\|\| \{\s*vec!\[" "fn numeric_mappings() -> [NumericMapping; {N_NUM}] { ["
//@ sub "\]\s*\}\);\s*$" "] }"
//@ extract crates/rs1090/src/data/tail.rs static NUMERIC_MAPPINGS
//@ sub "static STRIDE_MAPPINGS: Lazy<Vec<StrideMapping>> = Lazy::new\(\|\| \{\s*vec!\[" "fn stride_mappings() -> [StrideMapping; {N_STRIDE}] { ["
//@ sub "\]\s*\}\);\s*$" "] }"
//@ extract crates/rs1090/src/data/tail.rs static STRIDE_MAPPINGS
//@ sub "-> Option<String>" "-> Option<Str>"
//@ sub "STRIDE_MAPPINGS\.iter\(\)" "stride_mappings().iter()"
//@ extract crates/rs1090/src/data/tail.rs fn stride_reg
//@ sub "-> Option<String>" "-> Option<Str>"
//@ sub "NUMERIC_MAPPINGS\.iter\(\)" "numeric_mappings().iter()"
//@ sub "\.to_string\(\)" ".to_str()"
//@ extract crates/rs1090/src/data/tail.rs fn numeric_reg
//@ sub "-> Option<String>" "-> Option<Str>"
//@ extract crates/rs1090/src/data/tail.rs fn hl_reg
//@ sub "-> Option<String>" "-> Option<Str>"
//@ sub "\.to_string\(\)" ".to_str()"
//@ sub "LIMITED_ALPHABET\s*\.chars\(\)\s*\.nth\(" "LIMITED_ALPHABET.nth_ascii("
//@ extract crates/rs1090/src/data/tail.rs fn ja_reg
//@ sub "-> String" "-> Str"
//@ sub "LIMITED_ALPHABET\.chars\(\)\.nth\(" "LIMITED_ALPHABET.nth_ascii("
//@ extract crates/rs1090/src/data/tail.rs fn n_letters
//@ sub "-> String" "-> Str"
//@ sub "\.to_string\(\)" ".to_str()"
//@ sub "LIMITED_ALPHABET\s*\.chars\(\)\s*\.nth\(" "LIMITED_ALPHABET.nth_ascii("
//@ extract crates/rs1090/src/data/tail.rs fn n_letter
//@ sub "-> Option<String>" "-> Option<Str>"
//@ sub "\.to_string\(\)" ".to_str()"
//@ extract crates/rs1090/src/data/tail.rs fn n_reg
//@ sub "-> Option<String>" "-> Option<Str>"
//@ extract crates/rs1090/src/data/tail.rs fn tail

/// C14 totality: for EVERY 32-bit value (all 2^24 addresses and everything outside) each of the five
/// schemes returns without panicking: no alphabet index out of range, no unwrap on None, no arithmetic
/// overflow, no slice out of bounds
#[kani::proof]
#[kani::unwind(27)]
fn c14_n_reg_total() { let h: u32 = kani::any(); let r = n_reg(h); if let Some(s) = r { assert!(s.n <= 6); } kani::cover!(r.is_some()); }
#[kani::proof]
#[kani::unwind(27)]
fn c14_ja_reg_total() { let h: u32 = kani::any(); let r = ja_reg(h); kani::cover!(r.is_some()); }
#[kani::proof]
#[kani::unwind(27)]
fn c14_hl_reg_total() { let h: u32 = kani::any(); let r = hl_reg(h); kani::cover!(r.is_some()); }
#[kani::proof]
#[kani::unwind(27)]
fn c14_numeric_reg_total() { let h: u32 = kani::any(); let r = numeric_reg(h); kani::cover!(r.is_some()); }
/// the stride table is built by the real constructor from the real arguments (offset / end arithmetic
/// without overflow) and stride_reg is total on it
#[kani::proof]
#[kani::unwind(40)]
fn c14t_stride_reg_total_on_the_real_table() { let h: u32 = kani::any(); let r = stride_reg(h); kani::cover!(r.is_some()); }
/// vacuity canary: must FAIL
#[kani::proof]
#[kani::unwind(27)]
fn canary_tail_n_reg_never_some() { let h: u32 = kani::any(); assert!(n_reg(h).is_none()); }
