//@ unit tail
//@ engine kani
//@ opt harness_timeout 2000
// C14 (totality half) — crates/rs1090/src/data/tail.rs, verbatim: n_reg, n_letters, n_letter, ja_reg,
// hl_reg, numeric_reg + NumericMapping::new, stride_reg + StrideMapping::new, tail, and the two mapping
// tables (the `vec![...]` initialisers of NUMERIC_MAPPINGS / STRIDE_MAPPINGS, rebuilt through the real
// constructors inside the proof).
// R7-style stand-ins (stated, counted as RS): std String -> array-backed `Str` keeping the exact LENGTH
// and bytes (capacity 32); `x.to_string()` of u32 / char -> Str of its decimal digits / the char;
// `s.chars().nth(i)` / `s.chars().position(p)` on the ASCII alphabets -> byte indexing (same result for
// ASCII, checked: every byte < 128); `Lazy<Vec<T>>` statics -> functions returning the same `vec![...]`
// element list as an array; `format!` -> empty Str (R4f: the text is not part of the totality claim, every
// LENGTH that is used for slicing comes from to_string, which is exact).
#![allow(dead_code, unused_variables, unused_mut, unused_imports, non_snake_case, unused_parens)]
#[derive(Clone, Copy, Debug, PartialEq)]
pub struct Str { pub b: [u8; 32], pub n: usize }
impl Str {
    pub fn new() -> Str { Str { b: [0; 32], n: 0 } }
    pub fn from(s: &str) -> Str { let mut r = Str::new(); r.push_bytes(s.as_bytes()); r }
    fn push_bytes(&mut self, x: &[u8]) { let mut i = 0; while i < x.len() { assert!(self.n < 32); self.b[self.n] = x[i]; self.n += 1; i += 1; } }
    pub fn push_str(&mut self, o: &Str) { let mut i = 0; while i < o.n { assert!(self.n < 32); self.b[self.n] = o.b[i]; self.n += 1; i += 1; } }
    pub fn len(&self) -> usize { self.n }
    pub fn chars(&self) -> StrChars<'_> { StrChars { s: self } }
}
pub struct StrChars<'a> { s: &'a Str }
impl<'a> StrChars<'a> {
    pub fn nth(&self, i: usize) -> Option<char> { assert!(self.s.n == 0 || self.s.b[0] < 128); if i < self.s.n { Some(self.s.b[i] as char) } else { None } }
    pub fn position<F: Fn(char) -> bool>(&self, f: F) -> Option<usize> { let mut i = 0; while i < self.s.n { if f(self.s.b[i] as char) { return Some(i); } i += 1; } None }
}
impl core::ops::Add<&Str> for Str { type Output = Str; fn add(mut self, o: &Str) -> Str { self.push_str(o); self } }
/// prefix slice `&s[..k]`: panics exactly like the real one when k > len
impl core::ops::Index<core::ops::RangeTo<usize>> for Str { type Output = [u8]; fn index(&self, r: core::ops::RangeTo<usize>) -> &[u8] { assert!(r.end <= self.n); &self.b[..r.end] } }
pub trait ToStr { fn to_str(&self) -> Str; }
impl ToStr for u32 { fn to_str(&self) -> Str { let mut v = *self; let mut d = [0u8; 10]; let mut k = 0; loop { d[k] = b'0' + (v % 10) as u8; k += 1; v /= 10; if v == 0 { break; } } let mut r = Str::new(); while k > 0 { k -= 1; r.b[r.n] = d[k]; r.n += 1; } r } }
impl ToStr for char { fn to_str(&self) -> Str { let mut r = Str::new(); assert!((*self as u32) < 128); r.b[0] = *self as u8; r.n = 1; r } }
impl ToStr for Str { fn to_str(&self) -> Str { *self } }
impl ToStr for [u8] { fn to_str(&self) -> Str { let mut r = Str::new(); r.push_bytes(self); r } }
/// `{:X}` of a u32: upper-case hexadecimal digits without padding
pub trait ToHexUpper { fn to_hex_upper(&self) -> Str; }
impl ToHexUpper for u32 { fn to_hex_upper(&self) -> Str { let mut v = *self; let mut d = [0u8; 8]; let mut k = 0; loop { let x = (v % 16) as u8; d[k] = if x < 10 { b'0' + x } else { b'A' + (x - 10) }; k += 1; v /= 16; if v == 0 { break; } } let mut r = Str::new(); while k > 0 { k -= 1; r.b[r.n] = d[k]; r.n += 1; } r } }
pub trait AsciiNth { fn nth_ascii(&self, i: usize) -> Option<char>; }
impl AsciiNth for str { fn nth_ascii(&self, i: usize) -> Option<char> { let b = self.as_bytes(); if i < b.len() { assert!(b[i] < 128); Some(b[i] as char) } else { None } } }
//@ count N_NUM crates/rs1090/src/data/tail.rs "NumericMapping::new\("
//@ count N_STRIDE crates/rs1090/src/data/tail.rs "StrideMapping::new\("
//@ gsub "String::new\(\)" "Str::new()"
//@ gsub "String::from\(" "Str::from("
//@ extract crates/rs1090/src/data/tail.rs const LIMITED_ALPHABET
//@ extract crates/rs1090/src/data/tail.rs const FULL_ALPHABET
//@ sub "template: String" "template: Str"
//@ extract crates/rs1090/src/data/tail.rs struct NumericMapping
//@ sub "template: String" "template: Str"
//@ extract crates/rs1090/src/data/tail.rs fn new impl=NumericMapping wrap
//@ sub ": String" ": Str"
//@ extract crates/rs1090/src/data/tail.rs struct StrideMapping
//@ sub ": String" ": Str"
//@ extract crates/rs1090/src/data/tail.rs fn new impl=StrideMapping wrap
//@ sub "static NUMERIC_MAPPINGS: Lazy<Vec<NumericMapping>> = Lazy::new\(\|\| \{\s*vec!\[" "fn numeric_mappings() -> [NumericMapping; {N_NUM}] { ["
//@ sub "\]\s*\}\);\s*$" "] }"
//@ extract crates/rs1090/src/data/tail.rs static NUMERIC_MAPPINGS
//@ sub "static STRIDE_MAPPINGS: Lazy<Vec<StrideMapping>> = Lazy::new\(\|\| \{\s*vec!\[" "fn stride_mappings() -> [StrideMapping; {N_STRIDE}] { ["
//@ sub "\]\s*\}\);\s*$" "] }"
//@ extract crates/rs1090/src/data/tail.rs static STRIDE_MAPPINGS
//@ sub "-> Option<String>" "-> Option<Str>"
//@ sub "STRIDE_MAPPINGS\.iter\(\)" "stride_mappings().iter()"
//@ extract crates/rs1090/src/data/tail.rs fn stride_reg rules=r1,r2,r3,r4,r4c
//@ sub "-> Option<String>" "-> Option<Str>"
//@ sub "NUMERIC_MAPPINGS\.iter\(\)" "numeric_mappings().iter()"
//@ sub "\.to_string\(\)" ".to_str()"
//@ extract crates/rs1090/src/data/tail.rs fn numeric_reg rules=r1,r2,r3,r4,r4c
//@ sub "-> Option<String>" "-> Option<Str>"
//@ extract crates/rs1090/src/data/tail.rs fn hl_reg rules=r1,r2,r3,r4,r4c
//@ sub "-> Option<String>" "-> Option<Str>"
//@ sub "\.to_string\(\)" ".to_str()"
//@ sub "LIMITED_ALPHABET\s*\.chars\(\)\s*\.nth\(" "LIMITED_ALPHABET.nth_ascii("
//@ extract crates/rs1090/src/data/tail.rs fn ja_reg
//@ sub "-> String" "-> Str"
//@ sub "LIMITED_ALPHABET\.chars\(\)\.nth\(" "LIMITED_ALPHABET.nth_ascii("
//@ extract crates/rs1090/src/data/tail.rs fn n_letters rules=r1,r2,r3,r4,r4c
//@ sub "-> String" "-> Str"
//@ sub "\.to_string\(\)" ".to_str()"
//@ sub "LIMITED_ALPHABET\s*\.chars\(\)\s*\.nth\(" "LIMITED_ALPHABET.nth_ascii("
//@ extract crates/rs1090/src/data/tail.rs fn n_letter
//@ sub "-> Option<String>" "-> Option<Str>"
//@ sub "\.to_string\(\)" ".to_str()"
//@ extract crates/rs1090/src/data/tail.rs fn n_reg rules=r1,r2,r3,r4,r4c
//@ sub "-> Option<String>" "-> Option<Str>"
//@ extract crates/rs1090/src/data/tail.rs fn tail

/// C14 totality: for EVERY 32-bit value (all 2^24 addresses and everything outside) each of the five
/// schemes returns without panicking: no alphabet index out of range, no unwrap on None, no arithmetic
/// overflow, no slice out of bounds
#[kani::proof]
#[kani::unwind(27)]
fn c14_n_reg_total() { let h: u32 = kani::any(); let r = n_reg(h); if let Some(s) = r { assert!(s.n <= 6); } kani::cover!(r.is_some()); }
#[kani::proof]
#[kani::unwind(27)]
fn c14_ja_reg_total() { let h: u32 = kani::any(); let r = ja_reg(h); kani::cover!(r.is_some()); }
#[kani::proof]
#[kani::unwind(27)]
fn c14_hl_reg_total() { let h: u32 = kani::any(); let r = hl_reg(h); kani::cover!(r.is_some()); }
#[kani::proof]
#[kani::unwind(27)]
fn c14_numeric_reg_total() { let h: u32 = kani::any(); let r = numeric_reg(h); kani::cover!(r.is_some()); }
/// the stride table is built by the real constructor from the real arguments (offset / end arithmetic
/// without overflow) and stride_reg is total on it
#[kani::proof]
#[kani::unwind(40)]
fn c14t_stride_reg_total_on_the_real_table() { let h: u32 = kani::any(); let r = stride_reg(h); kani::cover!(r.is_some()); }

// ------------------------------------------------------------------------------------------------
// C14 injectivity.  A function f is injective on its Some-domain iff it has a left inverse there.  For each
// scheme an inverse is written from the published registration grammar (N-number blocks of 101711 / 10111 /
// 951 / 35 with 601- and 25-letter sub-blocks; JA blocks of 22984 / 916 / 34; HL hexadecimal), or, for the
// two table-driven schemes, as the generic parser over the SAME real table rows; the obligation
// `inv(scheme(h)) == Some(h)` for EVERY u32 h is the injectivity proof of that scheme (no pairwise search).
// Injectivity ACROSS schemes: each scheme's output falls in a syntactic class that is a function of the text
// alone (`class_of`), and the five classes are pairwise different, so two schemes can never produce the same
// text; `tail` returns None or the answer of one scheme for the same address (c14_tail_returns_the_answer_of_a_scheme_for_the_same_address,
// modular: the five callees are replaced by recording any-result stand-ins).
fn lim_idx(c: u8) -> Option<u32> { let a = b"ABCDEFGHJKLMNPQRSTUVWXYZ"; let mut i = 0; while i < 24 { if a[i] == c { return Some(i as u32); } i += 1; } None }
fn dig(c: u8) -> Option<u32> { if c >= b'0' && c <= b'9' { Some((c - b'0') as u32) } else { None } }
/// value of a 0..=2 letter suffix inside a 601-block: "" -> 0, "A" -> 1, "AA" -> 2, "AB" -> 3 ... (25 per first letter)
fn inv_letters(s: &Str, pos: usize) -> Option<u32> {
    let k = s.n - pos;
    if k == 0 { return Some(0); }
    let a = lim_idx(s.b[pos])?;
    if k == 1 { return Some(1 + a * 25); }
    if k == 2 { let b = lim_idx(s.b[pos + 1])?; return Some(1 + a * 25 + 1 + b); }
    None
}
fn inv_n(s: &Str) -> Option<u32> {
    if s.n < 2 || s.n > 6 || s.b[0] != b'N' { return None; }
    let d1 = dig(s.b[1])?;
    if d1 == 0 { return None; }
    let mut off = (d1 - 1) * 101711;
    let mut pos = 2;
    let sizes = [10111u32, 951, 35];
    let mut lvl = 0;
    while lvl < 3 {
        if pos < s.n && dig(s.b[pos]).is_some() { off += 601 + dig(s.b[pos]).unwrap() * sizes[lvl]; pos += 1; lvl += 1; } else { break; }
    }
    if lvl < 3 { off += inv_letters(s, pos)?; }
    else if pos == s.n { }
    else if s.n - pos == 1 {
        match dig(s.b[pos]) { Some(d) => off += 25 + d, None => off += 1 + lim_idx(s.b[pos])? }
    } else { return None; }
    Some(0xA00001 + off)
}
fn inv_ja(s: &Str) -> Option<u32> {
    if s.n != 6 || s.b[0] != b'J' || s.b[1] != b'A' { return None; }
    let d1 = dig(s.b[2])?; let d2 = dig(s.b[3])?;
    let rest = match dig(s.b[4]) {
        Some(d3) => d3 * 34 + match dig(s.b[5]) { Some(d4) => d4, None => 10 + lim_idx(s.b[5])? },
        None => 340 + lim_idx(s.b[4])? * 24 + lim_idx(s.b[5])?,
    };
    Some(0x840000 + d1 * 22984 + d2 * 916 + rest)
}
fn hexv(c: u8) -> Option<u32> { if c >= b'0' && c <= b'9' { Some((c - b'0') as u32) } else if c >= b'A' && c <= b'F' { Some((c - b'A') as u32 + 10) } else { None } }
fn inv_hl(s: &Str) -> Option<u32> {
    if s.n != 6 || s.b[0] != b'H' || s.b[1] != b'L' { return None; }
    let v = hexv(s.b[2])? * 4096 + hexv(s.b[3])? * 256 + hexv(s.b[4])? * 16 + hexv(s.b[5])?;
    if v >= 0x7200 && v <= 0x7799 { Some(v - 0x7200 + 0x71BA00) }
    else if v >= 0x8000 && v <= 0x8099 { Some(v - 0x8000 + 0x71C000) }
    else if v >= 0x8200 && v <= 0x8299 { Some(v - 0x8200 + 0x71C200) }
    else { None }
}
/// generic parser over the real numeric table: the registration is the template with its last k characters
/// replaced by the k decimal digits (no leading zero unless the number is 0) of `first + (address - start)`
fn inv_numeric(s: &Str) -> Option<u32> {
    let t = numeric_mappings();
    let mut mi = 0;
    while mi < t.len() {
        let m = &t[mi];
        if s.n == m.template.n {
            let mut k = 1;
            while k <= s.n && k <= 9 {
                let mut okp = true; let mut i = 0;
                while i < s.n - k { if s.b[i] != m.template.b[i] { okp = false; } i += 1; }
                let mut v: u32 = 0; let mut okd = true; let mut j = s.n - k;
                while j < s.n { match dig(s.b[j]) { Some(d) => v = v * 10 + d, None => okd = false } j += 1; }
                let lead_ok = k == 1 || s.b[s.n - k] != b'0';
                if okp && okd && lead_ok && v >= m.first && v - m.first <= m.end - m.start { return Some(m.start + (v - m.first)); }
                k += 1;
            }
        }
        mi += 1;
    }
    None
}
/// generic parser over the real stride table: prefix, then three characters of the row's alphabet
fn inv_stride(s: &Str) -> Option<u32> {
    let t = stride_mappings();
    let mut mi = 0;
    while mi < t.len() {
        let m = &t[mi];
        if s.n == m.prefix.n + 3 {
            let mut okp = true; let mut i = 0;
            while i < m.prefix.n { if s.b[i] != m.prefix.b[i] { okp = false; } i += 1; }
            if okp {
                let p = m.prefix.n;
                let f = |c: u8| -> Option<u32> { let mut q = 0; while q < m.alphabet.n { if m.alphabet.b[q] == c { return Some(q as u32); } q += 1; } None };
                if let (Some(i1), Some(i2), Some(i3)) = (f(s.b[p]), f(s.b[p + 1]), f(s.b[p + 2])) {
                    let o = i1 * m.s1 + i2 * m.s2 + i3;
                    if o >= m.offset { let h = m.start + (o - m.offset); if h <= m.end { return Some(h); } }
                }
            }
        }
        mi += 1;
    }
    None
}
#[derive(PartialEq, Clone, Copy, Debug)]
enum Class { N, Ja, Hl, Numeric, Stride, Other }
/// syntactic class of a registration text: a function of the text alone
fn class_of(s: &Str) -> Class {
    let mut dash = false; let mut i = 0; while i < s.n { if s.b[i] == b'-' { dash = true; } i += 1; }
    if s.n == 0 { return Class::Other; }
    let last = s.b[s.n - 1];
    if dash { return if last >= b'0' && last <= b'9' { Class::Numeric } else if last >= b'A' && last <= b'Z' { Class::Stride } else { Class::Other }; }
    if s.n >= 2 && s.b[0] == b'N' && s.b[1] >= b'1' && s.b[1] <= b'9' { return Class::N; }
    if s.n >= 2 && s.b[0] == b'J' && s.b[1] == b'A' { return Class::Ja; }
    if s.n >= 2 && s.b[0] == b'H' && s.b[1] == b'L' { return Class::Hl; }
    Class::Other
}
// ------------------------------------------------------------------------------------------------
// C14 country consistency: the block the address-block table assigns to the address (FIRST row of
// patterns.json containing it, as in aircraft_information) lists the text's national prefix.
//@ country-table
fn starts_with(s: &Str, p: &str) -> bool { let b = p.as_bytes(); if b.len() > s.n { return false; } let mut i = 0; while i < b.len() { if s.b[i] != b[i] { return false; } i += 1; } true }
// NOTE: the two stride_reg obligations below named exp_* are NOT registered (not selected by any tier): neither finished
// within 2000 s of symbolic execution (30 rows x alphabet search); kept for a later session.
/// n_reg is injective (left inverse from the N-number grammar), its texts are in class N, at most 6 characters
#[kani::proof]
#[kani::unwind(27)]
fn c14_n_reg_injective_and_classified() { let h: u32 = kani::any(); if let Some(s) = n_reg(h) { assert!(inv_n(&s) == Some(h)); assert!(class_of(&s) == Class::N); } kani::cover!(n_reg(h).is_some()); }
#[kani::proof]
#[kani::unwind(27)]
fn c14_ja_reg_injective_and_classified() { let h: u32 = kani::any(); if let Some(s) = ja_reg(h) { assert!(inv_ja(&s) == Some(h)); assert!(class_of(&s) == Class::Ja); } kani::cover!(ja_reg(h).is_some()); }
#[kani::proof]
#[kani::unwind(27)]
fn c14_hl_reg_injective_and_classified() { let h: u32 = kani::any(); if let Some(s) = hl_reg(h) { assert!(inv_hl(&s) == Some(h)); assert!(class_of(&s) == Class::Hl); } kani::cover!(hl_reg(h).is_some()); }
#[kani::proof]
#[kani::unwind(27)]
fn c14_numeric_reg_injective_and_classified() { let h: u32 = kani::any(); if let Some(s) = numeric_reg(h) { assert!(inv_numeric(&s) == Some(h)); assert!(class_of(&s) == Class::Numeric); } kani::cover!(numeric_reg(h).is_some()); }
#[kani::proof]
#[kani::unwind(40)]
fn exp_stride_reg_injective_and_classified() { let h: u32 = kani::any(); if let Some(s) = stride_reg(h) { assert!(inv_stride(&s) == Some(h)); assert!(class_of(&s) == Class::Stride); } kani::cover!(stride_reg(h).is_some()); }
/// country consistency per scheme, every u32 (a registration is only ever returned inside a block of the table
/// whose pattern lists its prefix)
#[kani::proof]
#[kani::unwind(27)]
fn c14_n_reg_country_consistent() { let h: u32 = kani::any(); if let Some(s) = n_reg(h) { assert!(country_consistent(h, &s)); } kani::cover!(n_reg(h).is_some()); }
#[kani::proof]
#[kani::unwind(27)]
fn c14_ja_reg_country_consistent() { let h: u32 = kani::any(); if let Some(s) = ja_reg(h) { assert!(country_consistent(h, &s)); } kani::cover!(ja_reg(h).is_some()); }
#[kani::proof]
#[kani::unwind(27)]
fn c14_hl_reg_country_consistent() { let h: u32 = kani::any(); if let Some(s) = hl_reg(h) { assert!(country_consistent(h, &s)); } kani::cover!(hl_reg(h).is_some()); }
#[kani::proof]
#[kani::unwind(27)]
fn c14_numeric_reg_country_consistent() { let h: u32 = kani::any(); if let Some(s) = numeric_reg(h) { assert!(country_consistent(h, &s)); } kani::cover!(numeric_reg(h).is_some()); }
#[kani::proof]
#[kani::unwind(40)]
fn exp_stride_reg_country_consistent() { let h: u32 = kani::any(); if let Some(s) = stride_reg(h) { assert!(country_consistent(h, &s)); } kani::cover!(stride_reg(h).is_some()); }
// ------------------------------------------------------------------------------------------------
// `tail` against the CONTRACTS of its five callees (modular step): each callee is replaced by a stand-in that
// returns ANY Option<Str> (the same one on every call: the callees are pure) and records the address it was asked
// for.  What injectivity and country consistency need from `tail`, and all that is demanded: its result is None or
// is the answer of one of the five schemes asked for the SAME address.  (Order and number of calls are free.)
//@ allow "kani::stub(n_reg"
//@ allow "kani::stub(ja_reg"
//@ allow "kani::stub(hl_reg"
//@ allow "kani::stub(numeric_reg"
//@ allow "kani::stub(stride_reg"
pub static mut SR: [Option<Str>; 5] = [None; 5];
pub static mut SCALLS: [usize; 5] = [0; 5];
pub static mut SARG_OK: [bool; 5] = [true; 5];
pub static mut SADDR: u32 = 0;
fn any_answer(k: usize, h: u32) -> Option<Str> {
    unsafe {
        if SCALLS[k] == 0 {
            SR[k] = if kani::any() { let mut t = Str::new(); t.b = kani::any(); t.n = kani::any(); kani::assume(t.n <= 32); Some(t) } else { None };
        }
        if SCALLS[k] < 8 { SCALLS[k] += 1; }
        if h != SADDR { SARG_OK[k] = false; }
        SR[k]
    }
}
fn n_reg_any(h: u32) -> Option<Str> { any_answer(0, h) }
fn ja_reg_any(h: u32) -> Option<Str> { any_answer(1, h) }
fn hl_reg_any(h: u32) -> Option<Str> { any_answer(2, h) }
fn numeric_reg_any(h: u32) -> Option<Str> { any_answer(3, h) }
fn stride_reg_any(h: u32) -> Option<Str> { any_answer(4, h) }
#[kani::proof]
#[kani::unwind(34)]
#[kani::stub(n_reg, n_reg_any)]
#[kani::stub(ja_reg, ja_reg_any)]
#[kani::stub(hl_reg, hl_reg_any)]
#[kani::stub(numeric_reg, numeric_reg_any)]
#[kani::stub(stride_reg, stride_reg_any)]
fn c14_tail_returns_the_answer_of_a_scheme_for_the_same_address() {
    let h: u32 = kani::any();
    unsafe { SADDR = h; }
    let r = tail(h);
    unsafe {
        let mut from_a_scheme = false;
        let mut k = 0;
        while k < 5 { if SCALLS[k] >= 1 && SARG_OK[k] && SR[k].is_some() && r == SR[k] { from_a_scheme = true; } k += 1; }
        assert!(r.is_none() || from_a_scheme);
        kani::cover!(r.is_some() && SCALLS[4] >= 1 && r == SR[4]);
        kani::cover!(r.is_some() && SCALLS[0] >= 1 && r == SR[0]);
        kani::cover!(r.is_none());
    }
}
/// vacuity canary: must FAIL
#[kani::proof]
#[kani::unwind(27)]
fn canary_tail_n_reg_never_some() { let h: u32 = kani::any(); assert!(n_reg(h).is_none()); }
