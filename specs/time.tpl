//@ unit time
//@ engine verus
// C18 — GPS time conversion.  Verbatim functions of crates/rs1090/src/decode/time.rs with
// contracts taken from the property statement.
use vstd::prelude::*;
verus! {

pub open spec fn week_s() -> int { 604_800 }
pub open spec fn day_ns() -> int { 86_400_000_000_000 }
pub open spec fn gps_epoch_unix_s() -> int { 315_964_800 }
pub open spec fn leap_s() -> int { 18 }

//@ extract crates/rs1090/src/decode/time.rs static GPS_TO_UNIX_OFFSET
//@ extract crates/rs1090/src/decode/time.rs static LEAP_SECONDS_SINCE_2017

//@ extract crates/rs1090/src/decode/time.rs fn today_in_s
//@ret r
//@| requires now_s <= 0xffff_ffff_ffff_ffff_ffff_ffff_ffff_0000u128,
//@| ensures r <= now_s, now_s - r < 86_400, r % 86_400 == 0,

//@ extract crates/rs1090/src/decode/time.rs fn gps_week_in_s
//@ret r
//@| requires now_s >= gps_epoch_unix_s(),
//@| ensures
//@|     r <= now_s,
//@|     now_s - r < week_s(),
//@|     // GPS time (seconds since the GPS epoch) of the returned instant is a multiple of a week
//@|     (r - gps_epoch_unix_s() + leap_s()) % week_s() == 0,

//@ extract crates/rs1090/src/decode/time.rs fn since_gps_week_to_since_today
//@ret r
//@| requires gps_ns < 604_800_000_000_000u64,
//@| ensures
//@|     r == (gps_ns as int - 18_000_000_000) % day_ns(),
//@|     0 <= r < day_ns(),

//@ twin since_gps_week_to_since_today time_k/c18_since_gps_week_to_since_today
// vacuity witnesses: each precondition is satisfiable
fn pre_sat_gps_week() { let _r = gps_week_in_s(1_790_000_000); }
fn pre_sat_since() { let _r = since_gps_week_to_since_today(100_000_000_000); }

} // verus!
fn main() {}
