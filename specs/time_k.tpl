//@ unit time_k
//@ engine kani
// C18 twin of the Verus unit `time`: bit-precise Kani harnesses on the same verbatim functions.
// They exist to supply a concrete failing input when the Verus contract is refuted, and are
// complete proofs in their own right (loop-free, full u64 domain).
#![allow(dead_code)]
//@ section kani
//@ extract crates/rs1090/src/decode/time.rs static LEAP_SECONDS_SINCE_2017 rules=
//@ extract crates/rs1090/src/decode/time.rs fn since_gps_week_to_since_today rules=
//@ section native
use rs1090::decode::time::since_gps_week_to_since_today;
//@ section common

#[kani::proof]
fn c18_since_gps_week_to_since_today() {
    let t: u64 = kani::any();
    kani::assume(t < 604_800_000_000_000);
    let r = since_gps_week_to_since_today(t);
    let expect = ((t as i128 - 18_000_000_000).rem_euclid(86_400_000_000_000)) as u64;
    assert!(r == expect);
    assert!(r < 86_400_000_000_000);
}

// gps_week_in_s is NOT given a Kani twin: 64-bit division by 604800 does not terminate in CBMC within
// 10 min (measured); the Verus contract is the deciding obligation for it.

#[kani::proof]
fn canary_c18_leap_seconds_matter() {
    // must FAIL: ignoring the 18 leap seconds is wrong
    let t: u64 = kani::any();
    kani::assume(t >= 18_000_000_000 && t < 604_800_000_000_000);
    assert!(since_gps_week_to_since_today(t) != 0);
}
