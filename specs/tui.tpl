//@ unit tui
//@ engine kani-cargo
//@ dep ratatui = "0.29.0"
//@ dep crossterm = "0.29.0"
//@ opt harness_timeout 900
// C17 — terminal table navigation (crates/jet1090/src/main.rs: update, Jet1090::{next, previous,
// home}; tui.rs: Event), verbatim, against the REAL ratatui TableState / ScrollbarState and the
// real crossterm KeyEvent / KeyCode.
// Rewrites (stated, counted as RS): R6 `&mut tokio::sync::MutexGuard<Jet1090>` -> `&mut Jet1090`;
// fields of Jet1090 the functions never touch get unit type; `items: Vec<String>` -> `Vec<()>`
// (only `items.len()` is used, and a Vec of a zero-sized type can have ANY length: the table size
// is unbounded in the proof); `search_query: String` -> array-backed stand-in (push / pop / clear).
#![allow(dead_code, unused_variables, unused_mut, unused_imports, non_snake_case)]
use crossterm::event::{KeyCode, KeyEvent, KeyEventKind, KeyEventState, KeyModifiers, MediaKeyCode, ModifierKeyCode};
use ratatui::widgets::*;
#[derive(Debug, Default, Clone, PartialEq)]
pub struct Query { pub n: usize, pub last: char }
impl Query {
    pub fn push(&mut self, c: char) { if self.n < usize::MAX { self.n += 1; } self.last = c; }
    pub fn pop(&mut self) -> Option<char> { if self.n > 0 { self.n -= 1; Some(self.last) } else { None } }
    pub fn cleared() -> Query { Query { n: 0, last: '\0' } }
    pub fn is_empty(&self) -> bool { self.n == 0 }
    pub fn len(&self) -> usize { self.n }
    pub fn clear(&mut self) { self.n = 0; }
}
//@ extract crates/jet1090/src/tui.rs enum Event derive="Debug, Clone"
//@ extract crates/jet1090/src/main.rs enum SortKey derive="Debug, Default, PartialEq, Clone, Copy, kani::Arbitrary"
//@ sub "BTreeMap<u64, Sensor>" "()"
//@ sub "BTreeMap<String, snapshot::StateVectors>" "()"
//@ sub "items: Vec<String>" "items: Vec<()>"
//@ sub "search_query: String" "search_query: Query"
//@ extract crates/jet1090/src/main.rs struct Jet1090 derive="Debug, Default"
//@ sub "&mut tokio::sync::MutexGuard<Jet1090>" "&mut Jet1090"
//@ sub "\"\"\.to_string\(\)" "Query::cleared()"
//@ extract crates/jet1090/src/main.rs fn update
impl Jet1090 {
//@ extract crates/jet1090/src/main.rs fn next impl=Jet1090
//@ extract crates/jet1090/src/main.rs fn previous impl=Jet1090
//@ extract crates/jet1090/src/main.rs fn home impl=Jet1090
}

fn any_keycode() -> KeyCode {
    use KeyCode::*;
    let s: u8 = kani::any();
    match s {
        0 => Backspace, 1 => Enter, 2 => Left, 3 => Right, 4 => Up, 5 => Down, 6 => Home, 7 => End, 8 => PageUp, 9 => PageDown,
        10 => Tab, 11 => BackTab, 12 => Delete, 13 => Insert, 14 => F(kani::any()), 15 => Char(kani::any()), 16 => Null, 17 => Esc,
        18 => CapsLock, 19 => ScrollLock, 20 => NumLock, 21 => PrintScreen, 22 => Pause, 23 => Menu, 24 => KeypadBegin,
        25 => Media(match kani::any::<u8>() % 13 { 0 => MediaKeyCode::Play, 1 => MediaKeyCode::Pause, 2 => MediaKeyCode::PlayPause, 3 => MediaKeyCode::Reverse,
                4 => MediaKeyCode::Stop, 5 => MediaKeyCode::FastForward, 6 => MediaKeyCode::Rewind, 7 => MediaKeyCode::TrackNext, 8 => MediaKeyCode::TrackPrevious,
                9 => MediaKeyCode::Record, 10 => MediaKeyCode::LowerVolume, 11 => MediaKeyCode::RaiseVolume, _ => MediaKeyCode::MuteVolume }),
        _ => Modifier(match kani::any::<u8>() % 14 { 0 => ModifierKeyCode::LeftShift, 1 => ModifierKeyCode::LeftControl, 2 => ModifierKeyCode::LeftAlt, 3 => ModifierKeyCode::LeftSuper,
                4 => ModifierKeyCode::LeftHyper, 5 => ModifierKeyCode::LeftMeta, 6 => ModifierKeyCode::RightShift, 7 => ModifierKeyCode::RightControl, 8 => ModifierKeyCode::RightAlt,
                9 => ModifierKeyCode::RightSuper, 10 => ModifierKeyCode::RightHyper, 11 => ModifierKeyCode::RightMeta, 12 => ModifierKeyCode::IsoLevel3Shift, _ => ModifierKeyCode::IsoLevel5Shift }),
    }
}
/// every terminal event: every key code (all chars, all function / media / modifier keys), every
/// modifier set, kind and state; every tick width; the error event
fn any_event() -> Event {
    match kani::any::<u8>() % 3 {
        0 => Event::Key(KeyEvent { code: any_keycode(), modifiers: KeyModifiers::from_bits_truncate(kani::any()),
                kind: match kani::any::<u8>() % 3 { 0 => KeyEventKind::Press, 1 => KeyEventKind::Repeat, _ => KeyEventKind::Release },
                state: KeyEventState::from_bits_truncate(kani::any()) }),
        1 => Event::Tick(kani::any()),
        _ => Event::Error,
    }
}
/// the property's invariant: the selected index is 0 on an empty table, else below the number of rows
fn inv(app: &Jet1090) -> bool {
    match app.state.selected() { None => true, Some(i) => if app.items.len() == 0 { i == 0 } else { i < app.items.len() } }
}
/// any UI state satisfying the invariant: ANY number of rows (0 ..= usize::MAX), any flags
fn any_app() -> Jet1090 {
    let len: usize = kani::any();
    let sel: Option<usize> = kani::any();
    let mut app = Jet1090::default();
    app.items = vec![(); len];
    app.state = TableState::default().with_selected(sel);
    app.should_quit = kani::any(); app.should_clear = kani::any();
    app.sort_key = kani::any(); app.sort_asc = kani::any(); app.width = kani::any();
    app.is_search_mode = kani::any();
    app.search_query = Query { n: kani::any(), last: kani::any() };
    kani::assume(inv(&app));
    app
}
/// C17 inductive step: from every state satisfying the invariant, every event is handled without
/// panic and re-establishes the invariant (so every event HISTORY does, by induction); flags change
/// only on their documented keys (help line of table.rs: Esc/Q quit, / search, Esc cancel, Enter lock;
/// a c v . f l sort keys, - order)
#[kani::proof]
fn c17_update_keeps_selection_in_range_and_flags_framed() {
    let mut app = any_app();
    let ev = any_event();
    let (len0, sel0, quit0, search0, key0, asc0, w0, q0) = (app.items.len(), app.state.selected(), app.should_quit, app.is_search_mode, app.sort_key, app.sort_asc, app.width, app.search_query.clone());
    let code = if let Event::Key(k) = &ev { Some(k.code) } else { None };
    let tick = if let Event::Tick(w) = &ev { Some(*w) } else { None };
    let r = update(&mut app, ev);
    assert!(r.is_ok());
    assert!(inv(&app));
    assert!(app.items.len() == len0);
    use KeyCode::*;
    // quit: only q / Q / Esc outside search mode, and never reset
    if app.should_quit != quit0 { assert!(!search0 && matches!(code, Some(Char('q')) | Some(Char('Q')) | Some(Esc)) && app.should_quit); }
    if !search0 && matches!(code, Some(Char('q')) | Some(Esc)) { assert!(app.should_quit); }
    // search mode: entered by '/', left by Esc or Enter
    if app.is_search_mode != search0 {
        if search0 { assert!(matches!(code, Some(Esc) | Some(Enter))); } else { assert!(matches!(code, Some(Char('/')))); }
    }
    if search0 && matches!(code, Some(Esc) | Some(Enter)) { assert!(!app.is_search_mode); }
    if search0 && matches!(code, Some(Esc)) { assert!(app.search_query.n == 0); }
    // sort key / order: only their keys, only outside search mode
    if app.sort_key != key0 { assert!(!search0 && matches!(code, Some(Char('a')) | Some(Char('c')) | Some(Char('v')) | Some(Char('.')) | Some(Char('f')) | Some(Char('l')))); }
    if app.sort_asc != asc0 { assert!(!search0 && matches!(code, Some(Char('-')))); }
    // the query is edited only in search mode; the width only by a tick; the selection only by navigation keys
    if app.search_query != q0 { assert!(search0); }
    if app.width != w0 { assert!(tick == Some(app.width)); }
    if app.state.selected() != sel0 { assert!(matches!(code, Some(Char('j')) | Some(Char('k')) | Some(Char('g')) | Some(Up) | Some(Down) | Some(Home) | Some(PageUp))); }
    kani::cover!(len0 == 0 && matches!(code, Some(Down)));
    kani::cover!(app.should_quit && !quit0);
}
/// the start-up state (Jet1090::default() + `with_selected(0)` as in main) satisfies the invariant
#[kani::proof]
fn c17_initial_state_satisfies_invariant() {
    let mut app = Jet1090::default();
    app.state = TableState::default().with_selected(0);
    assert!(inv(&app));
}
/// vacuity canary: must FAIL
#[kani::proof]
fn canary_tui_selection_never_moves() {
    let mut app = any_app();
    let s0 = app.state.selected();
    let _ = update(&mut app, any_event());
    assert!(app.state.selected() == s0);
}
