#!/usr/bin/env python3
"""prints the prompt given to an independent mutation-writing sub-agent for one property"""
import json, sys
pid = sys.argv[1]
n = sys.argv[2] if len(sys.argv) > 2 else '2'
for l in open('/verif/properties.jsonl'):
    p = json.loads(l)
    if p['id'] == pid:
        break
print(f"""You are helping to test a verification effort for the open-source Rust project xoolive/rs1090 (a decoder for Mode S / ADS-B / FLARM frames, plus the jet1090 live aggregator). You have your OWN scratch git worktree of the repository at /tmp/wt_{pid} (work ONLY there; never touch /repo or /verif, and do not read anything under /verif). The sandbox has no network; build with `cargo ... --offline` and use `CARGO_TARGET_DIR=/tmp/wt_{pid}/target`.

Here is a semantic property of the code base that is supposed to hold:

PROPERTY {pid}: {p['title']}
{p['statement']}
(Quantified over: {p['quantifier']['text']})
Relevant files: {', '.join(p['anchors']['files'])}

YOUR TASK: produce {n} DIFFERENT, independent, realistic code changes ("seeded bugs") to the repository, each of which BREAKS this property while the project STILL COMPILES and the EXISTING test suite (`cargo test --workspace --no-fail-fast --offline`, 46 tests + 1 doctest) STILL PASSES. Each change should look like a plausible maintainer edit (refactor, optimisation, off-by-one, wrong constant, wrong field, dropped guard, reordered statements ...), be small (a few lines), and should need something SPECIFIC to manifest — an unusual input, a boundary value, a particular multi-step sequence of operations, a particular chunking/interleaving, or two cooperating sites that each look fine alone — NOT something ordinary use would expose at once. Prefer subtle semantic changes deep in the functions the property depends on; vary the location and the kind of bug between your {n} changes.

For EACH change k = 1..{n} deliver, under /tmp/wt_{pid}/out/m<k>/ :
  - patch.diff : `git diff` of the change against the unmodified worktree (apply-able with `git apply` at the repo root; only source files, no target/ output)
  - a demonstration: a small Rust test or example program (file demo.rs plus exact instructions in README.md on where to put it / how to run it, e.g. as an integration test file under crates/rs1090/tests/ or an example) that FAILS (assertion/panic) with the change applied and PASSES without it. The demonstration must exercise the real code through its public API where possible.
  - README.md : which function you changed, why it breaks the property, what specific circumstance is needed for it to manifest, the exact commands you ran, and the observed results (test suite passes with patch; demo passes without patch and fails with patch).

Procedure you must follow for each change: (1) make the edit in the worktree; (2) run the full existing test suite and confirm it passes; (3) run your demo and confirm it fails; (4) save the diff; (5) `git checkout -- .` (and remove your demo file from the tree) and confirm the demo passes on the unmodified code; keep the demo file only under out/. At the end the worktree itself must be clean except for the out/ and target/ directories.

Do not weaken or edit existing tests. Do not add new dependencies. Reply with a short summary listing each change (file, function, one-line description, what is needed to manifest) and confirm the verification steps you ran.""")
