#!/usr/bin/env python3
"""Generates the harness-side copy of the address-block table of crates/rs1090/data/patterns.json.

Each register row with start/end becomes  Block { start, end, prefixes: &[...] }  in file order.  The row's
`pattern` (a regex anchored with ^) is expanded into the finite list of literal prefixes it denotes; supported
syntax (everything the file uses): literal characters, one level of groups with `|` alternatives (nested once),
`X?` on a single character, and a trailing `\\d{n}` / `\\d+` / `\\d` which is dropped (the literal part before it is
the national prefix).  Rows without a pattern get an empty prefix list (no registration is consistent with them).
Anything else raises Unsupported (exit 2 upstream, never an alarm)."""
import json
import re


class Unsupported(Exception):
    pass


def expand(p):
    if not p.startswith('^'):
        raise Unsupported('pattern not anchored: %r' % p)
    p = p[1:]
    p = re.sub(r'\\d(\{\d+\}|\+|\*)?$', '', p)

    def seq(s):
        # returns list of strings denoted by s (concatenation of atoms)
        res = ['']
        i = 0
        while i < len(s):
            ch = s[i]
            if ch == '(':
                depth, j = 1, i + 1
                while j < len(s) and depth:
                    depth += (s[j] == '(') - (s[j] == ')')
                    j += 1
                if depth:
                    raise Unsupported('unbalanced group in %r' % p)
                inner = s[i + 1:j - 1]
                alts, d, cur = [], 0, ''
                for c in inner:
                    if c == '(':
                        d += 1
                    if c == ')':
                        d -= 1
                    if c == '|' and d == 0:
                        alts.append(cur)
                        cur = ''
                    else:
                        cur += c
                alts.append(cur)
                opts = []
                for a in alts:
                    opts += seq(a)
                i = j
            elif re.match(r'[A-Za-z0-9-]', ch):
                opts = [ch]
                i += 1
            else:
                raise Unsupported('unsupported regex syntax %r in %r' % (ch, p))
            if i < len(s) and s[i] == '?':
                opts = opts + ['']
                i += 1
            res = [r + o for r in res for o in opts]
        return res
    out = sorted(set(seq(p)))
    if any(o == '' for o in out):
        raise Unsupported('pattern %r admits the empty prefix' % p)
    return out


def emit(path):
    d = json.load(open(path))
    rows = []
    for r in d['registers']:
        if r.get('start') is None or r.get('end') is None:
            continue
        st, en = int(r['start'][2:], 16), int(r['end'][2:], 16)
        pre = expand(r['pattern']) if r.get('pattern') else []
        rows.append((st, en, pre, r['country']))
    o = ['// GENERATED on every run by tools/country.py from crates/rs1090/data/patterns.json (rule RC)',
         '/// literal national prefixes of the FIRST block of the table (file order) that contains the address',
         'pub const N_BLOCKS: usize = %d;' % len(rows),
         'pub fn country_consistent(h: u32, s: &Str) -> bool {']
    for (st, en, pre, c) in rows:
        o.append('    if h >= 0x%06x && h <= 0x%06x { return %s; } // %s' % (st, en, ' || '.join('starts_with(s, "%s")' % x for x in pre) or 'false', c.replace('\n', ' ')))
    o.append('    false')
    o.append('}')
    return '\n'.join(o)


if __name__ == '__main__':
    import sys
    print(emit(sys.argv[1]))
