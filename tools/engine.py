#!/usr/bin/env python3
"""Verification engine: generates units from /repo's working tree, runs Verus / Kani,
parses per-obligation results, replays counterexamples, writes evidence."""
import concurrent.futures as cf
import json
import os
import re
import shutil
import subprocess
import sys
import time

ROOT = os.path.dirname(os.path.dirname(os.path.abspath(__file__)))
sys.path.insert(0, os.path.join(ROOT, 'tools'))
import gen  # noqa
from extract import ExtractError  # noqa

REPO = os.environ.get('VERIF_REPO', '/repo')
WORK = os.path.join(ROOT, '.work')
SPECS = os.path.join(ROOT, 'specs')
EVID = os.path.join(ROOT, 'evidence')
REPLAYS = os.path.join(ROOT, 'replays')
GUARD = 'xoolive_rs1090_verif'

ENV = dict(os.environ)
ENV.update({'CARGO_NET_OFFLINE': 'true', 'CARGO_TERM_COLOR': 'never', 'NO_COLOR': '1'})

FORBIDDEN = ['assume(', 'admit(', 'external_body', 'assume_specification', 'kani::stub(', 'verifier::truncate',
             'external_fn_specification', 'verifier::external', 'stub_verified(']


class ToolLimit(Exception):
    pass


def sh(cmd, cwd=None, timeout=None, env=None):
    t0 = time.time()
    try:
        p = subprocess.run(cmd, cwd=cwd, env=env or ENV, stdout=subprocess.PIPE, stderr=subprocess.PIPE,
                           timeout=timeout, text=True, errors='replace')
        return p.returncode, p.stdout, p.stderr, time.time() - t0
    except subprocess.TimeoutExpired as e:
        so = e.stdout.decode(errors='replace') if isinstance(e.stdout, bytes) else (e.stdout or '')
        se = e.stderr.decode(errors='replace') if isinstance(e.stderr, bytes) else (e.stderr or '')
        return -9, so, se, time.time() - t0


# ------------------------------------------------------------------------------------------
# Verus
# ------------------------------------------------------------------------------------------

def run_verus(u, udir, opts, select):
    path = os.path.join(udir, u.name + '.rs')
    with open(path, 'w') as f:
        f.write(u.text)
    cmd = ['verus', path, '--output-json', '--time', '--num-threads', str(opts.get('threads', 8))]
    if 'rlimit' in u.opts:
        cmd += ['--rlimit', str(u.opts['rlimit'])]
    rc, so, se, wall = sh(cmd, cwd=udir, timeout=int(opts.get('timeout', 900)))
    with open(os.path.join(udir, 'verus.stdout'), 'w') as f:
        f.write(so)
    with open(os.path.join(udir, 'verus.stderr'), 'w') as f:
        f.write(se)
    if rc == -9:
        raise ToolLimit('verus timeout on unit %s' % u.name)
    try:
        js = json.loads(so[so.index('{'):])
    except Exception:
        raise ToolLimit('verus produced no JSON for unit %s: %s' % (u.name, se[-400:]))
    vr = js.get('verification-results', {})
    # map error messages to functions by line
    lines = u.text.split('\n')
    fn_at = {}
    cur = None
    for n, l in enumerate(lines, 1):
        m = re.match(r'\s*(?:pub\s+)?(?:open\s+|closed\s+)?(?:proof\s+|spec\s+|exec\s+)?(?:const\s+)?fn\s+(\w+)', l)
        if m:
            cur = m.group(1)
        fn_at[n] = cur
    if vr.get('encountered-vir-error') or ('verified' not in vr):
        # an assert-by-compute that evaluates to false is a definite refutation of that obligation (Verus
        # reports it before the SMT phase and stops); everything else at this stage is a tool problem
        cm = re.search(r'^error: (expression simplifies to .*which evaluates to false)\n\s*--> [^:\n]+:(\d+):\d+', se, flags=re.M)
        if cm:
            fn = fn_at.get(int(cm.group(2))) or 'line_%s' % cm.group(2)
            o = dict(id='%s/%s' % (u.name, fn), unit=u.name, name=fn, engine='verus', backend='verus compute (interpreter)',
                     status='refuted', detail='%s (generated line %s)' % (cm.group(1), cm.group(2)), time_s=0.0, mode='proof', checks=1)
            return [o], dict(cmd=' '.join(cmd), wall_s=wall, solver_s=0.0, partial='verus stopped at the first failed compute obligation; the remaining obligations of unit %s were not attempted in this run' % u.name)
        raise ToolLimit('verus front-end error in unit %s (not a verification result): %s' % (u.name, first_error(se)))
    errs = {}
    for m in re.finditer(r'^error: (.*)\n\s*--> [^:\n]+:(\d+):\d+', se, flags=re.M):
        fn = fn_at.get(int(m.group(2)))
        errs.setdefault(fn, []).append('%s (generated line %s: %s)' % (m.group(1), m.group(2), lines[int(m.group(2)) - 1].strip()[:120]))
    rlimit_hit = 'Resource limit (rlimit) exceeded' in se or 'rlimit exceeded' in se
    obls = []
    smt = js.get('times-ms', {}).get('smt', {})
    for mod in smt.get('smt-run-module-times', []):
        for fb in mod.get('function-breakdown', []):
            name = fb['function'].split('::')[-1]
            if fb.get('mode:') == 'spec' and fb.get('success'):
                # spec fn well-formedness / constants: counted, trivial
                pass
            if select and not re.search(select, name) and not name.startswith('canary_'):
                continue
            status = 'discharged' if fb.get('success') else 'refuted'
            detail = '; '.join(errs.get(name, []))
            if not fb.get('success') and (rlimit_hit and ('rlimit' in detail or not detail)):
                status = 'undecided'
            if name.startswith('canary_'):
                status = 'canary_ok' if not fb.get('success') else 'canary_bad'
            obls.append(dict(id='%s/%s' % (u.name, name), unit=u.name, name=name, engine='verus', backend='z3 (via Verus)',
                             status=status, detail=detail, time_s=fb.get('time-micros', 0) / 1e6, rlimit=fb.get('rlimit'),
                             mode=fb.get('mode:'), checks=1))
    if not obls:
        raise ToolLimit('verus unit %s produced no obligations' % u.name)
    # errors not attributed to any function-breakdown failure => tool problem
    failed_fns = {o['name'] for o in obls if o['status'] in ('refuted', 'canary_ok', 'undecided')}
    for fn in errs:
        if fn not in failed_fns and not (select and fn and not re.search(select, fn)):
            raise ToolLimit('verus error outside any obligation in unit %s: %s' % (u.name, errs[fn][0]))
    return obls, dict(cmd=' '.join(cmd), wall_s=wall, solver_s=smt.get('total', 0) / 1e3)


def first_error(se):
    m = re.search(r'^error.*(?:\n.*){0,6}', se, flags=re.M)
    return m.group(0)[:600] if m else se[-400:]


# ------------------------------------------------------------------------------------------
# Kani
# ------------------------------------------------------------------------------------------

def kani_cargo_setup(u, udir):
    """crate with path deps; the unit text becomes src/lib.rs"""
    os.makedirs(os.path.join(udir, 'src'), exist_ok=True)
    os.makedirs(os.path.join(udir, '.cargo'), exist_ok=True)
    deps = '\n'.join(u.deps)
    with open(os.path.join(udir, 'Cargo.toml'), 'w') as f:
        f.write('[package]\nname = "vunit_%s"\nversion = "0.0.0"\nedition = "2021"\n\n[lib]\npath = "src/lib.rs"\n\n[dependencies]\n%s\n\n[workspace]\n\n[lints.rust]\nunexpected_cfgs = { level = "allow" }\n' % (u.name, deps))
    with open(os.path.join(udir, '.cargo', 'config.toml'), 'w') as f:
        f.write('[net]\noffline = true\n')
    shutil.copy(os.path.join(REPO, 'Cargo.lock'), os.path.join(udir, 'Cargo.lock'))
    with open(os.path.join(udir, 'src', 'lib.rs'), 'w') as f:
        f.write(u.text)


def parse_kani_output(text, harnesses):
    """-> {harness: dict(status, failed=[(desc, where)], checks=n, time_s, covers=(sat,total))}"""
    res = {}
    # terse -j output: 'Thread N: Checking harness X...' then a block 'Thread N: \nVERIFICATION RESULT ...'
    # sequential output: 'Checking harness X...' blocks.
    cur_by_thread = {}
    blocks = re.split(r'(?m)^(?=(?:Thread \d+: )?Checking harness )|^(?=Thread \d+: \n)', text)
    for b in blocks:
        m = re.match(r'(?:Thread (\d+): )?Checking harness ([\w:]+)\.\.\.', b)
        if m:
            th = m.group(1) or '0'
            cur_by_thread[th] = m.group(2).split('::')[-1]
            body = b[m.end():]
            if 'VERIFICATION:-' not in body and 'CBMC failed' not in body and 'CBMC timed out' not in body and 'ran out of memory' not in body:
                continue
            h = cur_by_thread[th]
        else:
            m2 = re.match(r'Thread (\d+): \n', b)
            if not m2:
                continue
            h = cur_by_thread.get(m2.group(1))
            body = b
            if h is None:
                continue
        r = res.setdefault(h, dict(status=None, failed=[], checks=0, time_s=0.0, covers=None, raw=''))
        r['raw'] += body
        mm = re.search(r'\*\* (\d+) of (\d+) failed', body)
        if mm:
            r['checks'] = int(mm.group(2))
        for fm in re.finditer(r'Failed Checks: (.*)\n\s*File: "([^"]*)", line (\d+), in ([^\n]*)', body):
            r['failed'].append((fm.group(1).strip(), fm.group(4).strip(), int(fm.group(3))))
        for fm in re.finditer(r'Failed Checks: (.*)\n(?!\s*File:)', body):
            r['failed'].append((fm.group(1).strip(), '', 0))
        cm = re.search(r'\*\* (\d+) of (\d+) cover properties satisfied', body)
        if cm:
            r['covers'] = (int(cm.group(1)), int(cm.group(2)))
        tm = re.search(r'Verification Time: ([\d.]+)s', body)
        if tm:
            r['time_s'] = float(tm.group(1))
        if 'VERIFICATION:- SUCCESSFUL' in body:
            r['status'] = 'ok'
        elif 'VERIFICATION:- FAILED' in body:
            r['status'] = 'failed'
            if re.search(r'unwinding assertion|CBMC timed out|out of memory|ran out of memory', body):
                if all(re.search(r'unwinding assertion', d[0]) for d in r['failed']) or not r['failed']:
                    r['status'] = 'undecided'
        elif 'CBMC failed' in body or 'CBMC timed out' in body or 'out of memory' in body:
            r['status'] = 'undecided'
    return res


def run_kani(u, udir, opts, select, harness_filter=None):
    hs = [h for h in u.harnesses if (h.startswith('canary_') or not select or re.search(select, h))]
    if harness_filter:
        hs = [h for h in hs if re.search(harness_filter, h)]
    if not hs:
        raise ToolLimit('kani unit %s: no harness selected (vacuity guard)' % u.name)
    flags = ['-Z', 'function-contracts', '-Z', 'stubbing', '-Z', 'unstable-options', '--output-format', 'terse',
             '-j', str(opts.get('jobs', 8)), '--harness-timeout', '%ds' % int(u.opts.get('harness_timeout', opts.get('harness_timeout', 600)))]
    for extra in u.opts.get('kani_flags', '').split():
        flags.append(extra)
    for h in hs:
        flags += ['--harness', h]
    if u.engine == 'kani':
        path = os.path.join(udir, u.name + '.rs')
        with open(path, 'w') as f:
            f.write(u.text)
        cmd = ['kani', path] + flags
        env = dict(ENV)
        env['RUSTFLAGS'] = '--edition 2021'
    else:
        kani_cargo_setup(u, udir)
        cmd = ['cargo', 'kani'] + flags
        env = dict(ENV)
        env['CARGO_TARGET_DIR'] = os.path.join(WORK, 'target-kani')
        env['RUSTFLAGS'] = (env.get('RUSTFLAGS', '') + ' --cfg ' + GUARD).strip()
    rc, so, se, wall = sh(cmd, cwd=udir, timeout=int(u.opts.get('timeout', opts.get('timeout', 3600))), env=env)
    with open(os.path.join(udir, 'kani.stdout'), 'w') as f:
        f.write(so)
    with open(os.path.join(udir, 'kani.stderr'), 'w') as f:
        f.write(se)
    if rc == -9:
        raise ToolLimit('kani timeout on unit %s' % u.name)
    if re.search(r'^error(\[E\d+\])?:', se, flags=re.M) and 'Checking harness' not in so:
        raise ToolLimit('kani/rustc could not compile unit %s: %s' % (u.name, first_error(se)))
    res = parse_kani_output(so, hs)
    obls = []
    for h in hs:
        r = res.get(h)
        meta = u.opts.get('meta', {}).get(h, {})
        if r is None or r['status'] is None:
            st, detail, checks, t = 'undecided', 'no result parsed for harness (crash / timeout)', 0, 0.0
            failed = []
        else:
            failed = r['failed']
            checks, t = r['checks'], r['time_s']
            detail = '; '.join('%s [in %s]' % (d, w) for (d, w, _l) in failed)
            st = {'ok': 'discharged', 'failed': 'refuted', 'undecided': 'undecided'}[r['status']]
            if r['covers'] and r['covers'][0] < r['covers'][1] and st == 'discharged':
                st, detail = 'undecided', 'vacuity guard: only %d of %d cover properties satisfied' % r['covers']
        if h.startswith('canary_'):
            st = 'canary_ok' if st == 'refuted' else ('canary_bad' if st == 'discharged' else st)
        obls.append(dict(id='%s/%s' % (u.name, h), unit=u.name, name=h, engine=u.engine, backend='cbmc/cadical (via Kani)',
                         status=st, detail=detail, failed=failed, time_s=t, checks=checks,
                         bounded=meta.get('bounded'), covers=(r or {}).get('covers') if r else None))
    return obls, dict(cmd=' '.join(cmd[:2] + ['...'] + flags[:10]), wall_s=wall, solver_s=sum(o['time_s'] for o in obls))


def kani_counterexample(u, udir, harness):
    """re-run one harness with concrete playback; returns list of byte vectors or None"""
    flags = ['-Z', 'function-contracts', '-Z', 'stubbing', '-Z', 'concrete-playback', '--concrete-playback=print', '--harness', harness]
    for extra in u.opts.get('kani_flags', '').split():
        flags.append(extra)
    if u.engine == 'kani':
        cmd = ['kani', os.path.join(udir, u.name + '.rs')] + flags
        env = dict(ENV)
        env['RUSTFLAGS'] = '--edition 2021'
    else:
        cmd = ['cargo', 'kani'] + flags
        env = dict(ENV)
        env['CARGO_TARGET_DIR'] = os.path.join(WORK, 'target-kani')
        env['RUSTFLAGS'] = (env.get('RUSTFLAGS', '') + ' --cfg ' + GUARD).strip()
    rc, so, se, wall = sh(cmd, cwd=udir, timeout=1800, env=env)
    tests = []
    for m in re.finditer(r'Check for `[^`]*`: "([^"]*)"\s*\n\s*\n#\[test\]\nfn (\w+)\(\) \{\n\s*let concrete_vals: Vec<Vec<u8>> = vec!\[(.*?)\n\s*\];', so, flags=re.S):
        vals = []
        for vm in re.finditer(r'^\s*vec!\[([^\]]*)\],?\s*$', m.group(3), flags=re.M):
            s = vm.group(1).strip()
            vals.append([int(x) for x in s.split(',') if x.strip()] if s else [])
        tests.append(dict(check=m.group(1), vals=vals))
    return tests, so[-3000:]


# ------------------------------------------------------------------------------------------
# native replay of a Kani counterexample against the real code
# ------------------------------------------------------------------------------------------

KANI_SHIM = r'''
#[allow(dead_code, unused)]
pub mod kani {
    use std::cell::RefCell;
    use std::collections::VecDeque;
    thread_local! { pub static VALS: RefCell<VecDeque<Vec<u8>>> = RefCell::new(VecDeque::new()); }
    pub fn set(v: Vec<Vec<u8>>) { VALS.with(|x| *x.borrow_mut() = v.into()); }
    fn next(n: usize) -> Vec<u8> {
        VALS.with(|x| {
            let v = x.borrow_mut().pop_front().unwrap_or_else(|| vec![0u8; n]);
            if v.len() != n { println!("REPLAY-MISMATCH: wanted {} bytes, counterexample has {}", n, v.len()); std::process::exit(4); }
            v
        })
    }
    pub trait Arbitrary: Sized { fn any() -> Self; }
    macro_rules! prim { ($($t:ty),*) => { $(impl Arbitrary for $t { fn any() -> Self { let b = next(std::mem::size_of::<$t>()); <$t>::from_le_bytes(b.try_into().unwrap()) } })* } }
    prim!(u8, u16, u32, u64, u128, usize, i8, i16, i32, i64, i128, isize, f32, f64);
    impl Arbitrary for bool { fn any() -> Self { next(1)[0] != 0 } }
    impl Arbitrary for char { fn any() -> Self { let b = next(4); char::from_u32(u32::from_le_bytes(b.try_into().unwrap())).unwrap_or('\u{fffd}') } }
    impl<T: Arbitrary, const N: usize> Arbitrary for [T; N] { fn any() -> Self { std::array::from_fn(|_| T::any()) } }
    impl<T: Arbitrary> Arbitrary for Option<T> { fn any() -> Self { if bool::any() { Some(T::any()) } else { None } } }
    pub fn any<T: Arbitrary>() -> T { T::any() }
    pub fn any_where<T: Arbitrary, F: FnOnce(&T) -> bool>(f: F) -> T { let v = T::any(); assume(f(&v)); v }
    pub fn assume(c: bool) { if !c { println!("REPLAY-ASSUME-FAILED"); std::process::exit(3); } }
    #[macro_export] macro_rules! kani_cover { ($($t:tt)*) => {} }
    pub use kani_cover as cover;
}
'''


def emulate_arbitrary_derive(text):
    """native builds have no kani derive macro: drop `kani::Arbitrary` from derive lists and emit the impl the
    macro would generate (enums: `match any::<i32>() { 0 => V0, .., _ => Vlast }`, structs: field by field)"""
    impls = []
    for m in re.finditer(r'#\[derive\(([^)]*kani::Arbitrary[^)]*)\)\]\s*(?:#\[[^\]]*\]\s*)*pub\s+(enum|struct)\s+(\w+)\s*([({])', text):
        kind, name = m.group(2), m.group(3)
        o = m.end() - 1
        close = {'{': '}', '(': ')'}[text[o]]
        depth, k = 0, o
        while True:
            if text[k] == text[o]:
                depth += 1
            elif text[k] == close:
                depth -= 1
                if depth == 0:
                    break
            k += 1
        body = text[o + 1:k]
        body = re.sub(r'#\[[^\]]*\]', '', body)
        body = re.sub(r'//[^\n]*', '', body)
        parts = [x.strip() for x in body.split(',') if x.strip()]
        if kind == 'enum':
            vs = [re.match(r'(\w+)', x).group(1) for x in parts]
            if any(('(' in x or '{' in x) for x in parts):
                continue
            arms = ''.join('%d => %s::%s, ' % (i, name, v) for i, v in enumerate(vs[:-1])) + '_ => %s::%s' % (name, vs[-1])
            impls.append('impl kani::Arbitrary for %s { fn any() -> Self { match <i32 as kani::Arbitrary>::any() { %s } } }' % (name, arms))
        elif text[o] == '{':
            fs = [re.match(r'(?:pub(?:\([^)]*\))?\s+)?(\w+)\s*:', x).group(1) for x in parts]
            impls.append('impl kani::Arbitrary for %s { fn any() -> Self { %s { %s } } }' % (name, name, ', '.join('%s: kani::any()' % f for f in fs)))
        else:
            impls.append('impl kani::Arbitrary for %s { fn any() -> Self { %s(%s) } }' % (name, name, ', '.join('kani::any()' for _ in parts)))
    text = re.sub(r',\s*kani::Arbitrary', '', text)
    text = re.sub(r'kani::Arbitrary\s*,\s*', '', text)
    return text, '\n'.join(impls)


def native_replay(uname, harness, vals, tag):
    """build the unit in native mode against the real crate and run one harness with the
    counterexample values.  -> dict(reproduced, output)"""
    try:
        nu = gen.process(uname, WORK, mode='native')
    except Exception as e:
        return dict(reproduced=False, output='native replay not available: %s' % e)
    same_text = not nu.opts.get('native')
    # units without a `native` section are replayed on the same generated text (verbatim extracted functions,
    # real dependency crates where the unit has them, stand-in reader where the unit uses one)
    rdir = os.path.join(WORK, 'replay', uname)
    os.makedirs(os.path.join(rdir, 'src'), exist_ok=True)
    os.makedirs(os.path.join(rdir, '.cargo'), exist_ok=True)
    deps = (['rs1090 = { path = "%s/crates/rs1090" }' % REPO, 'deku = "0.18.1"'] if not same_text else []) + list(nu.deps)
    deps = list(dict((d.split('=')[0].strip(), d) for d in deps).values())
    with open(os.path.join(rdir, 'Cargo.toml'), 'w') as f:
        f.write('[package]\nname = "vreplay_%s"\nversion = "0.0.0"\nedition = "2021"\n\n[dependencies]\n%s\n\n[workspace]\n\n[profile.dev]\noverflow-checks = true\ndebug = false\n\n[lints.rust]\nunexpected_cfgs = { level = "allow" }\n' % (uname, '\n'.join(dict.fromkeys(deps))))
    with open(os.path.join(rdir, '.cargo', 'config.toml'), 'w') as f:
        f.write('[net]\noffline = true\n')
    shutil.copy(os.path.join(REPO, 'Cargo.lock'), os.path.join(rdir, 'Cargo.lock'))
    text = nu.text
    text, arb_impls = emulate_arbitrary_derive(text)
    text = text + '\n' + arb_impls
    text = re.sub(r'#\[kani::[^\]]*\]\s*', '', text)
    text = re.sub(r'(?m)^#!\[[^\]]*\]\s*$', '', text)
    text = re.sub(r'#\[cfg\(kani\)\]\s*', '', text)
    text = re.sub(r'#\[cfg_attr\(kani,[^\]]*\]\s*', '', text)
    text = text.replace('kani::cover!', 'crate::kani_cover!')
    main = '#![allow(warnings)]\n' + KANI_SHIM + text + '\nfn main() {\n    let vals: Vec<Vec<u8>> = vec![%s];\n    kani::set(vals);\n    %s();\n    println!("REPLAY-NO-FAILURE");\n}\n' % (
        ', '.join('vec![%s]' % ', '.join(str(b) for b in v) for v in vals), harness)
    with open(os.path.join(rdir, 'src', 'main.rs'), 'w') as f:
        f.write(main)
    env = dict(ENV)
    env['CARGO_TARGET_DIR'] = os.path.join(WORK, 'target-native')
    env['RUSTFLAGS'] = '--cfg ' + GUARD
    rc, so, se, wall = sh(['cargo', 'run', '--offline', '-q'], cwd=rdir, timeout=1800, env=env)
    out = (so[-1500:] + '\n' + se[-2500:]).strip()
    reproduced = (rc == 101 and 'panicked at' in se)
    return dict(reproduced=reproduced, exit=rc, output=out)


# ------------------------------------------------------------------------------------------
# known findings
# ------------------------------------------------------------------------------------------

def load_known():
    p = os.path.join(ROOT, 'known_findings.txt')
    out = []
    if os.path.exists(p):
        for l in open(p):
            l = l.strip()
            if l.startswith('open:'):
                m = re.match(r'open:\s+property=(\w+)\s+obligation=(\S+)\s+check="([^"]*)"\s*(.*)$', l)
                if m:
                    out.append(dict(prop=m.group(1), obligation=m.group(2), check=m.group(3), text=m.group(4)))
    return out


def known_covers(known, prop, o):
    """an open finding covers a refuted obligation iff every failed check matches a listed finding"""
    ks = [k for k in known if k['prop'] == prop and k['obligation'] == o['id']]
    if not ks:
        return None
    failed = o.get('failed') or [(o.get('detail', ''), '', 0)]
    hit = []
    for (d, w, _l) in failed:
        k = next((k for k in ks if k['check'] in ('%s [in %s]' % (d, w))), None)
        if k is None:
            return None
        hit.append(k)
    return hit


# ------------------------------------------------------------------------------------------
# assumption scan
# ------------------------------------------------------------------------------------------

def scan_assumptions(u):
    hits = []
    allow = u.opts.get('allow', [])
    for n, l in enumerate(u.text.split('\n'), 1):
        code = l.split('//')[0]
        for pat in FORBIDDEN:
            if pat in code:
                if pat == 'assume(' and re.search(r'kani::assume\(', code):
                    # kani::assume in a harness is the harness precondition; recorded, not forbidden
                    continue
                ok = any(a in code for a in allow)
                hits.append((n, pat, l.strip()[:140], ok))
    return hits


# ------------------------------------------------------------------------------------------
# property run
# ------------------------------------------------------------------------------------------

def load_props():
    with open(os.path.join(SPECS, 'properties.json')) as f:
        return json.load(f)


def run_unit(uname, select, tier_opts, harness_filter=None):
    udir = os.path.join(WORK, uname)
    os.makedirs(udir, exist_ok=True)
    u = gen.process(uname, udir, mode='verify')
    scan = scan_assumptions(u)
    bad = [h for h in scan if not h[3]]
    if bad:
        raise ToolLimit('unit %s: unlisted assumption construct %r at generated line %d' % (uname, bad[0][1], bad[0][0]))
    if u.engine == 'verus':
        obls, info = run_verus(u, udir, tier_opts, select)
    else:
        obls, info = run_kani(u, udir, tier_opts, select, harness_filter)
    info['extracted'] = u.extracted
    info['rules'] = dict(u.rules.counts)
    info['allowed_assumption_constructs'] = [dict(line=h[0], construct=h[1], text=h[2]) for h in scan]
    info['unit_assumptions'] = u.opts.get('assume_notes', [])
    info['udir'] = udir
    info['unit'] = u
    return obls, info


def run_property(prop, tier, seed, only_unit=None, only_harness=None, verbose=False):
    t0 = time.time()
    props = load_props()
    if prop not in props:
        print('TOOL-LIMIT property=%s not claimed (see MANIFEST not_applicable)' % prop)
        return 2
    P = props[prop]
    units = [x for x in P['units'] if tier == 'thorough' or x.get('tier', 'quick') == 'quick']
    if only_unit:
        units = [x for x in units if x['unit'] == only_unit]
    tier_opts = dict(jobs=P.get('jobs', 8), threads=8)
    all_obls, infos, limits = [], {}, []
    max_par = int(P.get('parallel_units', 3))
    with cf.ThreadPoolExecutor(max_workers=max_par) as ex:
        futs = {}
        for x in units:
            sel = x.get('select_' + tier, x.get('select'))
            futs[ex.submit(run_unit, x['unit'], sel, dict(tier_opts, **x.get('opts', {})), only_harness)] = x
        for fu in cf.as_completed(futs):
            x = futs[fu]
            try:
                obls, info = fu.result()
                all_obls += obls
                infos[x['unit']] = info
            except (ToolLimit, ExtractError) as e:
                limits.append('%s: %s' % (x['unit'], e))
    known = load_known()
    violations, known_hits = [], []
    for o in all_obls:
        if o['status'] in ('undecided', 'canary_bad'):
            limits.append('%s: %s %s' % (o['id'], o['status'], o.get('detail', '')))
        if o['status'] == 'refuted':
            k = known_covers(known, prop, o)
            if k:
                known_hits.append((o, k))
                o['status'] = 'known_finding'
            else:
                violations.append(o)
    # replay refutations
    vio_lines = []
    for o in violations:
        rp = make_replay(prop, o, infos[o['unit']])
        vio_lines.append('VIOLATION property=%s replay=%s%s' % (prop, rp['path'], '' if rp['reproduced'] else ' no-failing-input-found'))
    for (o, ks) in known_hits:
        for k in ks:
            print('KNOWN-FINDING: property=%s %s %s' % (prop, o['id'], k['text']))
    if not only_harness and not only_unit:
        write_evidence(prop, P, tier, seed, all_obls, infos, limits, len(violations), time.time() - t0)
    if verbose or violations or limits:
        for o in sorted(all_obls, key=lambda o: o['id']):
            if verbose or o['status'] not in ('discharged', 'canary_ok'):
                print('  %-12s %-55s %6.1fs checks=%-4s %s' % (o['status'], o['id'], o['time_s'], o.get('checks'), (o.get('detail') or '')[:200]))
    n_ok = sum(1 for o in all_obls if o['status'] == 'discharged')
    print('property=%s tier=%s obligations=%d discharged=%d known=%d refuted=%d undecided=%d wall=%.1fs' % (
        prop, tier, len([o for o in all_obls if not o['name'].startswith('canary_')]), n_ok, len(known_hits), len(violations), len(limits), time.time() - t0))
    for l in vio_lines:
        print(l)
    if violations:
        return 1
    if limits:
        for l in limits:
            print('TOOL-LIMIT property=%s %s' % (prop, l[:500]))
        return 2
    return 0


def make_replay(prop, o, info):
    os.makedirs(os.path.join(REPLAYS, prop), exist_ok=True)
    path = os.path.join(REPLAYS, prop, o['id'].replace('/', '__') + '.json')
    rec = dict(property=prop, obligation=o['id'], engine=o['engine'], failed_checks=o.get('failed'), detail=o.get('detail'),
               functions_under_contract=info['extracted'], reproduced=False)
    u = info['unit']
    kani_twin = None
    if o['engine'] == 'verus':
        rec['verifier_output'] = open(os.path.join(info['udir'], 'verus.stderr')).read()[-6000:]
        # a Verus refutation carries no model; a twin Kani harness (same function) may supply one
        twin = u.opts.get('twin', {}).get(o['name'])
        if twin:
            try:
                tu_name, th = twin.split('/')
                tobls, tinfo = run_unit(tu_name, '^%s$' % re.escape(th), dict(jobs=1))
                if any(t['status'] == 'refuted' for t in tobls):
                    kani_twin = (tinfo['unit'], tinfo['udir'], th)
            except Exception as e:
                rec['twin_error'] = str(e)
    else:
        kani_twin = (u, info['udir'], o['name'])
    if kani_twin:
        ku, kdir, kh = kani_twin
        try:
            tests, tail = kani_counterexample(ku, kdir, kh)
            rec['counterexamples'] = tests
            rec['kani_output_tail'] = tail[-2500:]
            for t in tests:
                r = native_replay(ku.name, kh, t['vals'], o['id'])
                t['native_replay'] = r
                if r.get('reproduced'):
                    rec['reproduced'] = True
                    break
        except Exception as e:
            rec['replay_error'] = repr(e)
    if not rec['reproduced']:
        rec['note'] = 'no-failing-input-found: obligation %s is refuted by the verifier; see failed_checks / verifier_output' % o['id']
    with open(path, 'w') as f:
        json.dump(rec, f, indent=1, default=str)
    return dict(path=path, reproduced=rec['reproduced'])


def replay_file(prop, path):
    rec = json.load(open(path))
    print(json.dumps({k: rec.get(k) for k in ('property', 'obligation', 'failed_checks', 'reproduced', 'note')}, indent=1))
    uname, h = rec['obligation'].split('/')
    for t in rec.get('counterexamples') or []:
        r = native_replay(uname, h, t['vals'], rec['obligation'])
        print(r['output'])
        if r.get('reproduced'):
            print('VIOLATION property=%s replay=%s' % (prop, path))
            return 1
    return 0


def write_evidence(prop, P, tier, seed, obls, infos, limits, nviol, wall):
    os.makedirs(EVID, exist_ok=True)
    real = [o for o in obls if not o['name'].startswith('canary_')]
    proved = [o for o in real if not o.get('bounded')]
    bounded = [o for o in real if o.get('bounded')]
    level = P.get('level', 'proof')
    counted = proved if level == 'proof' else real
    fns = []
    rules = {}
    trusted = list(P.get('trusted_base', []))
    assumptions = list(P.get('assumptions', []))
    for un, info in infos.items():
        for e in info['extracted']:
            fns.append(dict(unit=un, **e))
        for k, v in info['rules'].items():
            rules[k] = rules.get(k, 0) + v
        for a in info['allowed_assumption_constructs']:
            assumptions.append('unit %s line %d: %s' % (un, a['line'], a['text']))
        for a in info.get('unit_assumptions', []):
            if a not in assumptions:
                assumptions.append(a)
    cov = dict(
        obligations=len(counted),
        discharged=sum(1 for o in counted if o['status'] == 'discharged'),
        known_findings=sum(1 for o in counted if o['status'] == 'known_finding'),
        checker_cmd='; '.join(sorted({i['cmd'] for i in infos.values()})),
        trusted_base=trusted,
        solver_checks=sum(o.get('checks') or 0 for o in counted),
        backends=sorted({o['backend'] for o in real}),
        solver_time_s=round(sum(o['time_s'] for o in real), 2),
        functions_under_contract=fns,
        extraction_rule_applications=rules,
        canaries=[dict(id=o['id'], status=o['status']) for o in obls if o['name'].startswith('canary_')],
        bounded_standins=[dict(id=o['id'], bound=o['bounded'], status=o['status'], note='bounded, not counted as proved') for o in bounded],
        undecided=limits,
        samples=[dict(id=o['id'], status=o['status'], backend=o['backend'], checks=o.get('checks'), time_s=round(o['time_s'], 3),
                      detail=(o.get('detail') or '')[:300]) for o in sorted(real, key=lambda o: o['id'])],
        explanation=P.get('explanation', ''),
        not_decided=P.get('not_decided', []),
        exhaustive=False,
    )
    if level != 'proof':
        cov['explanation'] = P.get('explanation', '') or 'bounded stand-in only; see bounded_standins'
    ev = dict(property_id=prop, tier=tier, seed=seed, level=level, coverage=cov, assumptions=assumptions,
              wall_s=round(wall, 2), violations=nviol)
    with open(os.path.join(EVID, prop + '.json'), 'w') as f:
        json.dump(ev, f, indent=1)
