#!/usr/bin/env python3
"""Mechanical extractor for Rust items of /repo (see DESIGN.md section 3.3).

The item text is copied verbatim from the current working tree; only the
numbered rewrite rules below are ever applied and every application is counted.
Anything the extractor cannot locate raises ExtractError (driver => exit 2,
never an alarm).
"""
import re
import hashlib


class ExtractError(Exception):
    pass


# --------------------------------------------------------------------------
# token-aware scanning
# --------------------------------------------------------------------------

def mask_source(src):
    """Return a copy of src (same length) where the contents of comments,
    string literals and char literals are replaced by spaces, so that brace
    matching and regex searches never look inside them."""
    out = list(src)
    i, n = 0, len(src)

    def blank(a, b):
        for k in range(a, b):
            if out[k] != '\n':
                out[k] = ' '

    while i < n:
        c = src[i]
        if src.startswith('//', i):
            j = src.find('\n', i)
            j = n if j < 0 else j
            blank(i, j)
            i = j
        elif src.startswith('/*', i):
            depth, j = 1, i + 2
            while j < n and depth:
                if src.startswith('/*', j):
                    depth += 1
                    j += 2
                elif src.startswith('*/', j):
                    depth -= 1
                    j += 2
                else:
                    j += 1
            blank(i, j)
            i = j
        elif c == 'r' and re.match(r'r#*"', src[i:i + 8]) and (i == 0 or not (src[i - 1].isalnum() or src[i - 1] == '_')):
            m = re.match(r'r(#*)"', src[i:])
            closing = '"' + m.group(1)
            j = src.find(closing, i + len(m.group(0)))
            j = n if j < 0 else j + len(closing)
            blank(i + len(m.group(0)), j - len(closing))
            i = j
        elif c == '"':
            j = i + 1
            while j < n and src[j] != '"':
                j += 2 if src[j] == '\\' else 1
            blank(i + 1, j)
            i = j + 1
        elif c == "'":
            # char literal or lifetime
            m = re.match(r"'(\\.[^']*|[^'\\])'", src[i:])
            if m:
                blank(i + 1, i + len(m.group(0)) - 1)
                i += len(m.group(0))
            else:
                i += 1
        else:
            i += 1
    return ''.join(out)


def match_close(masked, open_idx):
    """index of the bracket closing the one at open_idx (masked text)."""
    pairs = {'{': '}', '(': ')', '[': ']'}
    o = masked[open_idx]
    c = pairs[o]
    depth = 0
    for k in range(open_idx, len(masked)):
        ch = masked[k]
        if ch == o:
            depth += 1
        elif ch == c:
            depth -= 1
            if depth == 0:
                return k
    raise ExtractError('unbalanced %s at %d' % (o, open_idx))


class Source:
    def __init__(self, path):
        self.path = path
        with open(path) as f:
            self.text = f.read()
        self.masked = mask_source(self.text)

    def line_of(self, idx):
        return self.text.count('\n', 0, idx) + 1

    # -- locating -----------------------------------------------------------
    def _impl_range(self, type_name, trait=None):
        """(start, end) of the body of `impl [Trait for] Type {...}`; the n-th
        matching impl block that contains the wanted fn is selected by caller."""
        res = []
        if trait:
            pat = r'\bimpl\b(?:\s*<[^{;]*?>)?\s+(?:[\w:]+::)?%s\b(?:\s*<[^{;]*?>)?\s+for\s+%s\b[^{;]*\{' % (re.escape(trait), re.escape(type_name))
        else:
            pat = r'\bimpl\b(?:\s*<[^{;]*?>)?\s+%s\b(?:\s*<[^{;]*?>)?\s*(?:where[^{;]*)?\{' % re.escape(type_name)
        for m in re.finditer(pat, self.masked):
            o = m.end() - 1
            res.append((o + 1, match_close(self.masked, o)))
        return res

    def find_fn(self, name, impl=None, trait=None):
        """Return dict(start, sig_start, body_open, end) of `fn name`.
        start includes leading attributes / doc comments."""
        ranges = [(0, len(self.text))]
        if impl:
            ranges = self._impl_range(impl, trait)
            if not ranges:
                raise ExtractError('%s: impl %s%s not found' % (self.path, (trait + ' for ') if trait else '', impl))
        hits = []
        for (a, b) in ranges:
            for m in re.finditer(r'\bfn\s+%s\b' % re.escape(name), self.masked[a:b]):
                s = a + m.start()
                # depth check: for top-level wanted fns require brace depth 0
                depth = self.masked.count('{', a, s) - self.masked.count('}', a, s)
                if depth != 0:
                    continue
                hits.append(s)
        if len(hits) != 1:
            raise ExtractError('%s: fn %s%s: %d candidates' % (self.path, (impl + '::') if impl else '', name, len(hits)))
        fn_kw = hits[0]
        # extend left over qualifiers (pub, pub(crate), async, const, unsafe)
        ls = self.masked.rfind('\n', 0, fn_kw) + 1
        sig_start = ls + (len(self.masked[ls:fn_kw]) - len(self.masked[ls:fn_kw].lstrip()))
        body_open = self.masked.index('{', fn_kw)
        # a `;` before `{` would mean a declaration without body
        semi = self.masked.find(';', fn_kw, body_open)
        if semi >= 0 and '(' not in self.masked[semi:body_open] and self.masked.count('(', fn_kw, semi) == self.masked.count(')', fn_kw, semi) and self.masked.count('[', fn_kw, semi) == self.masked.count(']', fn_kw, semi):
            raise ExtractError('%s: fn %s has no body' % (self.path, name))
        # where-clauses may contain no braces; generic defaults neither
        end = match_close(self.masked, body_open)
        start = self._attrs_start(sig_start)
        return dict(start=start, sig_start=sig_start, body_open=body_open, end=end + 1)

    def _attrs_start(self, item_start):
        """walk upwards over attribute and doc-comment lines."""
        pos = item_start
        while True:
            prev_end = self.text.rfind('\n', 0, pos - 1) if pos > 0 else -1
            if pos == 0:
                break
            line_start = self.text.rfind('\n', 0, pos - 1) + 1
            line = self.text[line_start:pos - 1] if pos > 0 else ''
            st = line.strip()
            if st.startswith('//') or st.startswith('#['):
                pos = line_start
                continue
            # multi-line attribute: a line ending an attribute `)]`
            if st.endswith(')]') or st == ']':
                # find the matching '#[' upwards
                k = self.masked.rfind('#[', 0, pos)
                if k >= 0:
                    close = match_close(self.masked, k + 1)
                    if close >= line_start and close < pos:
                        ls = self.text.rfind('\n', 0, k) + 1
                        if self.text[ls:k].strip() == '':
                            pos = ls
                            continue
            # block doc comment /** ... */ directly above
            if st.endswith('*/'):
                k = self.text.rfind('/**', 0, pos)
                if k >= 0 and '*/' not in self.text[k:line_start]:
                    ls = self.text.rfind('\n', 0, k) + 1
                    pos = ls
                    continue
            break
        return pos

    def fn_text(self, name, impl=None, trait=None, with_attrs=False):
        loc = self.find_fn(name, impl, trait)
        a = loc['start'] if with_attrs else loc['sig_start']
        return self.text[a:loc['end']], loc

    def find_item(self, kind, name):
        """struct / enum / const / static / type item -> (start, end) incl attrs."""
        m = None
        for mm in re.finditer(r'\b%s\s+%s\b' % (kind, re.escape(name)), self.masked):
            s = mm.start()
            depth = self.masked.count('{', 0, s) - self.masked.count('}', 0, s)
            if depth == 0:
                if m is not None:
                    raise ExtractError('%s: %s %s ambiguous' % (self.path, kind, name))
                m = mm
        if m is None:
            raise ExtractError('%s: %s %s not found' % (self.path, kind, name))
        ls = self.masked.rfind('\n', 0, m.start()) + 1
        item_start = ls + (len(self.masked[ls:m.start()]) - len(self.masked[ls:m.start()].lstrip()))
        k = m.end()
        # find first of '{', ';', '(' at depth 0 (skip generics)
        sq = 0
        while k < len(self.masked) and (sq > 0 or self.masked[k] not in '{;(='):
            if self.masked[k] == '[':
                sq += 1
            elif self.masked[k] == ']':
                sq -= 1
            k += 1
        if self.masked[k] == '=':
            # const/static/type: ends at ';' at depth 0
            depth = 0
            while True:
                ch = self.masked[k]
                if ch in '{([':
                    depth += 1
                elif ch in '})]':
                    depth -= 1
                elif ch == ';' and depth == 0:
                    break
                k += 1
            end = k + 1
        elif self.masked[k] == '{':
            end = match_close(self.masked, k) + 1
        elif self.masked[k] == '(':
            close = match_close(self.masked, k)
            end = self.masked.index(';', close) + 1
        else:
            end = k + 1
        return self._attrs_start(item_start), item_start, end

    def item_text(self, kind, name, with_attrs=True):
        a, s, e = self.find_item(kind, name)
        return self.text[a if with_attrs else s:e], (a, s, e)

    # -- deku attribute code --------------------------------------------------
    def deku_field_attr(self, container, field, kind='struct'):
        """Return dict of key -> string value found in #[deku(...)] attributes
        directly above `field` inside `struct container` (or tuple index for
        tuple structs: field='0')."""
        a, s, e = self.find_item(kind, container)
        body_open = None
        k = s
        while self.masked[k] not in '{(':
            k += 1
        body_open = k
        body_close = match_close(self.masked, body_open)
        if self.masked[body_open] == '(':
            # tuple struct: split fields on top-level commas
            idx = int(field)
            parts = split_top(self.masked, body_open + 1, body_close, ',')
            if idx >= len(parts):
                raise ExtractError('%s: %s.%s: no such tuple field' % (self.path, container, field))
            fa, fb = parts[idx]
            region = (fa, fb)
        else:
            # find `field:` at depth 1 of the body
            region = None
            for m in re.finditer(r'(?:pub(?:\([^)]*\))?\s+)?\b%s\s*:' % re.escape(field), self.masked[body_open:body_close]):
                p = body_open + m.start()
                depth = self.masked.count('{', body_open, p) - self.masked.count('}', body_open, p)
                pd = self.masked.count('(', body_open, p) - self.masked.count(')', body_open, p)
                bd = self.masked.count('[', body_open, p) - self.masked.count(']', body_open, p)
                if depth == 1 and pd == 0 and bd == 0:
                    fstart = self._attrs_start(self.masked.rfind('\n', 0, p) + 1)
                    region = (fstart, p)
                    break
            if region is None:
                raise ExtractError('%s: %s.%s: field not found' % (self.path, container, field))
        fa, fb = region
        attrs = {}
        for m in re.finditer(r'#\[deku\(', self.masked[fa:fb]):
            o = fa + m.end() - 1
            c = match_close(self.masked, o)
            inner_m = self.masked[o + 1:c]
            inner = self.text[o + 1:c]
            for (pa, pb) in split_top(inner_m, 0, len(inner_m), ','):
                piece = inner[pa:pb].strip()
                if not piece:
                    continue
                if '=' in piece:
                    key, val = piece.split('=', 1)
                    key, val = key.strip(), val.strip()
                    if val.startswith('"') and val.endswith('"'):
                        val = val[1:-1].replace('\\"', '"')
                    attrs[key] = val
                else:
                    attrs[piece] = True
        attrs['_line'] = self.line_of(fa)
        # field type
        if self.masked[body_open] == '{':
            tm = re.match(r'\s*(?:pub(?:\([^)]*\))?\s+)?\w+\s*:\s*', self.text[fb - 0:])
            # type runs from after ':' to the next top-level ','
            colon = self.masked.index(':', fb)
            tend = colon + 1
            depth = 0
            while tend < body_close:
                ch = self.masked[tend]
                if ch in '<([{':
                    depth += 1
                elif ch in '>)]}':
                    depth -= 1
                elif ch == ',' and depth == 0:
                    break
                tend += 1
            attrs['_type'] = self.text[colon + 1:tend].strip()
        else:
            seg = self.text[fa:fb]
            seg_m = self.masked[fa:fb]
            # strip attributes
            last = 0
            for m in re.finditer(r'#\[', seg_m):
                c = match_close(seg_m, m.end() - 1)
                last = max(last, c + 1)
            ty = seg[last:].strip()
            ty = re.sub(r'^pub(\([^)]*\))?\s+', '', ty)
            attrs['_type'] = ty
        return attrs


def split_top(masked, a, b, sep):
    """split masked[a:b] on sep at bracket depth 0 -> list of (start,end)."""
    parts, depth, start = [], 0, a
    k = a
    while k < b:
        ch = masked[k]
        if ch in '([{':
            depth += 1
        elif ch in ')]}':
            depth -= 1
        elif ch == sep and depth == 0:
            parts.append((start, k))
            start = k + 1
        k += 1
    if masked[start:b].strip():
        parts.append((start, b))
    return parts


# --------------------------------------------------------------------------
# rewrite rules (DESIGN.md 3.3).  Each returns the new text and bumps counts.
# --------------------------------------------------------------------------

class Rules:
    def __init__(self):
        self.counts = {}

    def bump(self, rule, n=1):
        if n:
            self.counts[rule] = self.counts.get(rule, 0) + n

    # R1: generic reader parameter -> BitReader
    def r1(self, text):
        new, n = re.subn(r'<\s*R\s*:\s*deku::no_std_io::Read\s*\+\s*deku::no_std_io::Seek\s*,?\s*>', '', text)
        new, n2 = re.subn(r'&mut\s+(?:deku::reader::)?Reader<R>', '&mut BitReader', new)
        self.bump('R1', n + n2)
        return new

    # R2: primitive reads
    def r2(self, text):
        masked = mask_source(text)
        out, last, n = [], 0, 0
        for m in re.finditer(r'\b(u8|u16|u32|u64|bool|i8|i16|i32)::from_reader_with_ctx\s*\(', masked):
            if m.start() < last:
                continue
            o = m.end() - 1
            c = match_close(masked, o)
            args_m = masked[o + 1:c]
            args = text[o + 1:c]
            parts = split_top(args_m, 0, len(args_m), ',')
            if len(parts) < 2:
                raise ExtractError('R2: unexpected call form: %s' % text[m.start():c + 1])
            rd = args[parts[0][0]:parts[0][1]].strip()
            ctx = args[parts[1][0]:parts[1][1]].strip()
            ctx_m = args_m[parts[1][0]:parts[1][1]]
            ty = m.group(1)
            bm = re.search(r'BitSize\s*\(', ctx_m)
            if bm:
                lead = len(ctx_m) - len(ctx_m.lstrip())
                bo = bm.end() - 1
                bc = match_close(ctx_m, bo)
                bits = args[parts[1][0]:parts[1][1]][bo + 1:bc].strip()
                if 'Little' in ctx:
                    raise ExtractError('R2: little-endian bit-sized read unsupported')
                rep = '%s.rd_%s((%s) as u32)' % (rd, ty, bits)
            elif re.fullmatch(r'\(?\s*deku::ctx::Endian::Little\s*,?\s*\)?', ctx):
                rep = '%s.rd_%s_le()' % (rd, ty)
            elif re.fullmatch(r'\(?\s*deku::ctx::Endian::Big\s*,?\s*\)?', ctx):
                width = {'u8': 8, 'u16': 16, 'u32': 32, 'u64': 64, 'bool': 8}[ty]
                rep = '%s.rd_%s(%d)' % (rd, ty, width)
            else:
                raise ExtractError('R2: unexpected ctx: %s' % ctx)
            out.append(text[last:m.start()])
            out.append(rep)
            last = c + 1
            n += 1
        out.append(text[last:])
        self.bump('R2', n)
        return ''.join(out)

    # R3: logging statements
    def r3(self, text):
        masked = mask_source(text)
        out, last, n = [], 0, 0
        for m in re.finditer(r'\b(?:tracing::)?(debug|trace|info|warn|error)!\s*\(', masked):
            if m.start() < last:
                continue
            c = match_close(masked, m.end() - 1)
            k = c + 1
            while k < len(masked) and masked[k] in ' \t':
                k += 1
            out.append(text[last:m.start()])
            if k < len(masked) and masked[k] == ';':
                k += 1
            else:
                # expression position (match arm, block tail): the logging call has type ()
                out.append('()')
                k = c + 1
            last = k
            n += 1
        out.append(text[last:])
        self.bump('R3', n)
        return ''.join(out)

    # R4: DekuError payloads dropped
    def r4(self, text):
        masked = mask_source(text)
        out, last, n = [], 0, 0
        for m in re.finditer(r'\b(?:deku::)?DekuError::(\w+)\s*\(', masked):
            if m.start() < last:
                continue
            c = match_close(masked, m.end() - 1)
            inner = masked[m.end():c].strip()
            # pattern position (`DekuError::Assertion(_msg)`) is kept as a unit variant too
            out.append(text[last:m.start()])
            out.append('DekuError::%s' % m.group(1))
            last = c + 1
            n += 1
        out.append(text[last:])
        self.bump('R4', n)
        return ''.join(out)

    # R4f: remaining format!(...) expressions (error texts bound to a local first) -> String::new()
    def r4f(self, text):
        masked = mask_source(text)
        out, last, n = [], 0, 0
        for m in re.finditer(r'\bformat!\s*\(', masked):
            if m.start() < last:
                continue
            c = match_close(masked, m.end() - 1)
            out.append(text[last:m.start()])
            # the argument expressions are still evaluated (they may panic); only the formatting is dropped
            inner, inner_m = text[m.end():c], masked[m.end():c]
            parts = split_top(inner_m, 0, len(inner_m), ',')
            args = []
            for (pa, pb) in parts[1:]:
                a = inner[pa:pb].strip()
                am = re.match(r'^(\w+)\s*=\s*(?!=)(.*)$', a, flags=re.S)
                if am:
                    a = am.group(2)
                if a:
                    args.append(a)
            if args:
                out.append('{ ' + ' '.join('let _ = &(%s);' % a for a in args) + ' String::new() }')
            else:
                out.append('String::new()')
            last = c + 1
            n += 1
        out.append(text[last:])
        self.bump('R4f', n)
        return ''.join(out)

    # R4c: format!("lit{}lit{:X}", a, b) whose format string consists only of literal text and `{}` / `{:X}`
    # placeholders -> the concatenation  Str::from("lit") + &(a).to_str() + &Str::from("lit") + &(b).to_hex_upper()
    # (text-PRESERVING, unlike R4f; `to_str` is the Display stand-in of the unit: exact decimal digits / the char / the
    # string itself).  Anything else in the format string is an extraction error.
    def r4c(self, text):
        masked = mask_source(text)
        out, last, n = [], 0, 0
        for m in re.finditer(r'\bformat!\s*\(', masked):
            if m.start() < last:
                continue
            c = match_close(masked, m.end() - 1)
            out.append(text[last:m.start()])
            inner, inner_m = text[m.end():c], masked[m.end():c]
            parts = split_top(inner_m, 0, len(inner_m), ',')
            fmt = inner[parts[0][0]:parts[0][1]].strip()
            fm = re.match(r'^"((?:[^"\\{}]|\{\}|\{:X\})*)"$', fmt)
            if not fm:
                raise ExtractError('R4c: unsupported format string %s' % fmt)
            args = [inner[pa:pb].strip() for (pa, pb) in parts[1:] if inner[pa:pb].strip()]
            pieces = re.split(r'(\{\}|\{:X\})', fm.group(1))
            terms, k = [], 0
            for pc in pieces:
                if pc == '{}':
                    terms.append('(%s).to_str()' % args[k]); k += 1
                elif pc == '{:X}':
                    terms.append('(%s).to_hex_upper()' % args[k]); k += 1
                elif pc:
                    terms.append('Str::from("%s")' % pc)
            if k != len(args):
                raise ExtractError('R4c: %d placeholders but %d arguments in %s' % (k, len(args), fmt))
            if not terms:
                terms = ['Str::new()']
            out.append('(' + terms[0] + ''.join(' + &' + t for t in terms[1:]) + ')')
            last = c + 1
            n += 1
        out.append(text[last:])
        self.bump('R4c', n)
        return ''.join(out)

    # R8: Verus dialect
    def r8_static(self, text):
        new, n = re.subn(r'^(\s*)(pub\s+)?static\s+(\w+\s*:\s*(?:u8|u16|u32|u64|usize|i32|i64|f64))', r'\1\2const \3', text, flags=re.M)
        self.bump('R8', n)
        return new

    # R9: attributes / docs on type definitions
    def r9(self, text, derive=None):
        masked = mask_source(text)
        out, last, n = [], 0, 0
        for m in re.finditer(r'#\[', masked):
            if m.start() < last:
                continue
            c = match_close(masked, m.end() - 1)
            if text[m.start():c + 1].replace(' ', '') == '#[default]':
                continue        # part of the type's meaning (Default impl), kept
            out.append(text[last:m.start()])
            last = c + 1
            n += 1
        out.append(text[last:])
        new = ''.join(out)
        new = re.sub(r'^\s*///.*$', '', new, flags=re.M)
        new = re.sub(r'/\*\*.*?\*/', '', new, flags=re.S)
        new = re.sub(r'\n\s*\n+', '\n', new)
        if derive:
            new = '#[derive(%s)]\n' % derive + new.lstrip('\n')
        self.bump('R9', n)
        return new

    def apply(self, text, rules):
        for r in rules:
            text = getattr(self, r)(text)
        return text


def sha(text):
    return hashlib.sha256(text.encode()).hexdigest()[:16]


def split_fn(text):
    """(signature-without-brace, body-with-braces) of a fn item text."""
    masked = mask_source(text)
    o = masked.index('{', masked.index('fn '))
    return text[:o].rstrip(), text[o:]
