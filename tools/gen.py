#!/usr/bin/env python3
"""Template processor: specs/<unit>.tpl  ->  generated Verus file / Kani file or crate.

Directives (one per line, shell-like quoting):
  //@ unit NAME
  //@ engine kani | kani-cargo | verus
  //@ include FILE                              (relative to specs/)
  //@ extract PATH fn NAME [impl=T] [trait=Tr] [as=NEW] [rules=r1,r2] [wrap] [attrs]
  //@ extract PATH struct|enum|const|static|type NAME [derive="Clone, Copy"] [keep] [rules=..]
  //@ extract PATH closure S.f KIND name=N sig="(v: u8, tc: &u8) -> T" [kind2=enum]
  //@ extract PATH block fn=F [impl=T] anchor="regex" header="fn g(..)" [rules=..]
  //@ sub "regex" "replacement"                 (applies to the NEXT extract only; counted as rule RS)
Verus only (lines directly after an `extract ... fn` directive):
  //@| requires ... / ensures ... / decreases ...      contract spliced between signature and body
  //@loop N| invariant ... / decreases ...              clauses for the N-th loop of the body (1-based)
  //@after "anchor"| proof { ... }                      text inserted after the statement containing anchor
  //@ret NAME                                           name the return value (-> (NAME: T))
"""
import os
import re
import shlex
import sys

sys.path.insert(0, os.path.dirname(os.path.abspath(__file__)))
from extract import Source, Rules, ExtractError, mask_source, match_close, split_fn, sha  # noqa

REPO = os.environ.get('VERIF_REPO', '/repo')
SPECS = os.path.join(os.path.dirname(os.path.dirname(os.path.abspath(__file__))), 'specs')

DEFAULT_RULES = {'kani': ['r1', 'r2', 'r3', 'r4', 'r4f'], 'kani-cargo': ['r3'], 'verus': ['r3', 'r8_static']}


class Unit:
    def __init__(self, name):
        self.name = name
        self.engine = 'kani'
        self.text = ''
        self.extracted = []   # dicts: file, item, lines, sha, rules
        self.rules = Rules()
        self.harnesses = []   # (name, kind) kind in proof / canary
        self.opts = {}
        self.deps = []        # for kani-cargo


_src_cache = {}


def get_source(rel):
    p = os.path.join(REPO, rel)
    if p not in _src_cache:
        if not os.path.exists(p):
            raise ExtractError('source file missing: %s' % rel)
        _src_cache[p] = Source(p)
    return _src_cache[p]


def parse_kv(tokens):
    pos, kv = [], {}
    for t in tokens:
        m = re.match(r'^(\w+)=(.*)$', t, flags=re.S)
        if m:
            kv[m.group(1)] = m.group(2)
        else:
            pos.append(t)
    return pos, kv


def closure_body(code):
    """given the string of a deku map closure `|a: T| -> R { body }` return (params, body)."""
    code = code.strip()
    m = re.match(r'\|([^|]*)\|\s*(->\s*[^{]+)?', code)
    if not m:
        raise ExtractError('closure: not a closure literal: %r' % code[:40])
    rest = code[m.end():].strip()
    params = m.group(1).strip()
    if rest.startswith('{'):
        masked = mask_source(rest)
        c = match_close(masked, 0)
        if rest[c + 1:].strip():
            raise ExtractError('closure: trailing text after body')
        body = rest
    else:
        body = '{ ' + rest + ' }'
    return params, body


def insert_loop_clauses(body, loop_clauses):
    """Insert Verus loop clauses before the `{` of the N-th loop (for/while/loop) in body."""
    if not loop_clauses:
        return body
    masked = mask_source(body)
    loops = [m for m in re.finditer(r'\b(for|while|loop)\b', masked)]
    out, last = [], 0
    for n, m in enumerate(loops, 1):
        if n not in loop_clauses:
            continue
        # find the '{' opening the loop body: first '{' at paren depth 0 after the keyword
        k, depth = m.end(), 0
        while True:
            ch = masked[k]
            if ch in '([':
                depth += 1
            elif ch in ')]':
                depth -= 1
            elif ch == '{' and depth == 0:
                break
            k += 1
        out.append(body[last:k])
        out.append('\n' + '\n'.join(loop_clauses[n]) + '\n')
        last = k
    missing = [n for n in loop_clauses if n > len(loops)]
    if missing:
        raise ExtractError('loop %s not found (body has %d loops)' % (missing, len(loops)))
    out.append(body[last:])
    return ''.join(out)


def insert_after(body, afters):
    for anchor, text in afters:
        masked = mask_source(body)
        idx = body.find(anchor)
        if idx < 0 or body.find(anchor, idx + 1) >= 0:
            raise ExtractError('anchor %r: %s' % (anchor, 'not found' if idx < 0 else 'ambiguous'))
        # end of statement: next ';' at relative depth 0, or a '}' that closes a block opened after anchor
        k, depth = idx, 0
        while k < len(masked):
            ch = masked[k]
            if ch in '([{':
                depth += 1
            elif ch in ')]}':
                depth -= 1
                if depth == 0 and ch == '}':
                    k += 1
                    break
                if depth < 0:
                    break
            elif ch == ';' and depth == 0:
                k += 1
                break
            k += 1
        body = body[:k] + '\n' + text + '\n' + body[k:]
    return body


def insert_before(body, befores):
    """insert text before the statement (line) containing anchor"""
    for anchor, text in befores:
        idx = body.find(anchor)
        if idx < 0 or body.find(anchor, idx + 1) >= 0:
            raise ExtractError('anchor %r: %s' % (anchor, 'not found' if idx < 0 else 'ambiguous'))
        ls = body.rfind('\n', 0, idx) + 1
        body = body[:ls] + text + '\n' + body[ls:]
    return body


def process(unit_name, out_dir, mode='verify'):
    tpl_path = os.path.join(SPECS, unit_name + '.tpl')
    with open(tpl_path) as f:
        lines = f.read().split('\n')
    u = Unit(unit_name)
    out = []
    pending_subs = []
    global_subs = []
    counts = {}
    unit_rules = None
    pending_meta = None
    section = 'common'
    i = 0
    while i < len(lines):
        line = lines[i]
        st = line.strip()
        if st.startswith('//@ section '):
            section = st.split()[2]
            if section == 'native':
                u.opts['native'] = True
            i += 1
            continue
        skip = (section == 'native' and mode == 'verify') or (section == 'kani' and mode == 'native')
        if skip:
            i += 1
            continue
        if not st.startswith('//@ '):
            if pending_meta is not None:
                hm = re.match(r'\s*(?:pub\s+)?fn\s+(\w+)', line)
                if hm:
                    u.opts.setdefault('meta', {})[hm.group(1)] = pending_meta
                    pending_meta = None
            out.append(line)
            i += 1
            continue
        toks = shlex.split(st[4:])
        cmd = toks[0]
        i += 1
        if cmd == 'harness':
            _p, pending_meta = parse_kv(toks[1:])
            continue
        if cmd == 'twin':
            u.opts.setdefault('twin', {})[toks[1]] = toks[2]
            continue
        if cmd == 'allow':
            u.opts.setdefault('allow', []).append(toks[1])
            continue
        if cmd == 'assume-note':
            u.opts.setdefault('assume_notes', []).append(toks[1])
            continue
        if cmd == 'unit':
            continue
        if cmd == 'engine':
            u.engine = toks[1]
            continue
        if cmd == 'opt':
            u.opts[toks[1]] = toks[2] if len(toks) > 2 else True
            continue
        if cmd == 'dep':
            u.deps.append(st[len('//@ dep '):].strip().replace('{REPO}', REPO))
            continue
        if cmd == 'shown-oracle':
            import shown
            out.append(shown.emit_oracle(os.path.join(REPO, 'crates/rs1090/src/decode/mod.rs'), os.path.join(REPO, 'crates/rs1090/src/decode/adsb.rs')))
            u.extracted.append(dict(file='crates/rs1090/src/decode/mod.rs', item='serde attributes of enum DF / struct ADSB / struct ControlField (shown df / icao24 oracle)', lines=[0, 0], sha256_16='', rules={'RO': 1}))
            u.rules.bump('RO')
            continue
        if cmd == 'country-table':
            # RC: the address-block table of crates/rs1090/data/patterns.json (start, end, literal prefixes of the block's
            # registration pattern), regenerated from /repo on every run; the order of the rows is the order of the
            # file (aircraft_information takes the FIRST block containing the address)
            import country
            rel = 'crates/rs1090/data/patterns.json'
            pth = os.path.join(REPO, rel)
            if not os.path.exists(pth):
                raise ExtractError('source file missing: %s' % rel)
            try:
                out.append(country.emit(pth))
            except country.Unsupported as e:
                raise ExtractError('country table: %s' % e)
            u.extracted.append(dict(file=rel, item='registers[*].start / end / pattern (address-block table, patterns expanded to literal prefixes)', lines=[1, open(pth).read().count('\n')], sha256_16=sha(open(pth).read()), rules={'RC': 1}))
            u.rules.bump('RC')
            continue
        if cmd == 'path-include':
            # the real file is compiled unmodified: `#[path = "<repo>/..."] mod NAME;`
            rel, name = toks[1], toks[2]
            pth = os.path.join(REPO, rel)
            if not os.path.exists(pth):
                raise ExtractError('source file missing: %s' % rel)
            out.append('#[path = "%s"]\npub mod %s;' % (pth, name))
            u.extracted.append(dict(file=rel, item='whole file, unmodified (#[path] include)', lines=[1, open(pth).read().count('\n')], sha256_16=sha(open(pth).read()), rules={}))
            continue
        if cmd == 'include':
            with open(os.path.join(SPECS, toks[1])) as f:
                out.append(f.read())
            continue
        if cmd == 'sub':
            rp = toks[2]
            for ck, cv in counts.items():
                rp = rp.replace('{%s}' % ck, str(cv))
            pending_subs.append((toks[1], rp))
            continue
        if cmd == 'defaultrules':
            unit_rules = [r for r in toks[1].split(',') if r]
            continue
        if cmd == 'count':
            # //@ count NAME PATH REGEX : number of matches of REGEX in the (comment-masked) source; usable as {NAME} in sub / gsub replacements
            csrc = get_source(toks[2])
            counts[toks[1]] = len(re.findall(toks[3], csrc.masked))
            continue
        if cmd == 'gsub':
            # unit-wide substitution: applied to every following extract where it matches (counted as RS)
            global_subs.append((toks[1], toks[2]))
            continue
        if cmd == 'repeat':
            # //@ repeat VAR A B   followed by lines `//@: text with {VAR}` (python-format, `{{`/`}}` for braces)
            var, a, b = toks[1], int(toks[2]), int(toks[3])
            tl = []
            while i < len(lines) and lines[i].strip().startswith('//@:'):
                tl.append(lines[i].strip()[4:].lstrip(' '))
                i += 1
            for k in range(a, b):
                for t in tl:
                    out.append(t.replace('{%s}' % var, str(k)).replace('{%s:x}' % var, '%x' % k))
            continue
        if cmd != 'extract':
            raise ExtractError('%s: unknown directive %s' % (tpl_path, cmd))
        # gather verus continuation lines
        contract, loop_clauses, afters, retname, befores = [], {}, [], None, []
        while i < len(lines):
            s2 = lines[i].strip()
            m = re.match(r'^//@\|\s?(.*)$', s2)
            if m:
                contract.append(m.group(1))
                i += 1
                continue
            m = re.match(r'^//@loop\s+(\d+)\|\s?(.*)$', s2)
            if m:
                loop_clauses.setdefault(int(m.group(1)), []).append(m.group(2))
                i += 1
                continue
            m = re.match(r'^//@after\s+("(?:[^"\\]|\\.)*")\|\s?(.*)$', s2)
            if m:
                afters.append((shlex.split(m.group(1))[0], m.group(2)))
                i += 1
                continue
            m = re.match(r'^//@before\s+("(?:[^"\\]|\\.)*")\|\s?(.*)$', s2)
            if m:
                befores.append((shlex.split(m.group(1))[0], m.group(2)))
                i += 1
                continue
            m = re.match(r'^//@ret\s+(\w+)\s*$', s2)
            if m:
                retname = m.group(1)
                i += 1
                continue
            break
        rel = toks[1]
        kind = toks[2]
        pos, kv = parse_kv(toks[3:])
        src = get_source(rel)
        rules = kv['rules'].split(',') if 'rules' in kv else list(unit_rules if unit_rules is not None else DEFAULT_RULES[u.engine])
        rules = [r for r in rules if r]
        before = dict(u.rules.counts)
        if kind == 'fn':
            name = pos[0]
            text, loc = src.fn_text(name, impl=kv.get('impl'), trait=kv.get('trait'), with_attrs=('attrs' in pos))
            raw = text
            text = u.rules.apply(text, rules)
            if 'pub' in pos and not re.match(r'\s*pub\b', text):
                text = 'pub ' + text
            if 'as' in kv:
                text = re.sub(r'\bfn\s+%s\b' % re.escape(name), 'fn ' + kv['as'], text, count=1)
            for (pa, rp) in pending_subs:
                text, n = re.subn(pa, rp, text)
                if n == 0:
                    raise ExtractError('sub %r did not apply to %s' % (pa, name))
                u.rules.bump('RS', n)
            if contract or loop_clauses or afters or retname or befores:
                sig, body = split_fn(text)
                if retname:
                    sig2, n = re.subn(r'->\s*(.+)$', lambda m: '-> (%s: %s)' % (retname, m.group(1).strip()), sig, count=1, flags=re.S)
                    if n != 1:
                        raise ExtractError('ret: no return type in %s' % name)
                    sig = sig2
                body = insert_loop_clauses(body, loop_clauses)
                body = insert_after(body, afters)
                body = insert_before(body, befores)
                text = sig + '\n' + '\n'.join('    ' + c for c in contract) + '\n' + body
            if 'wrap' in pos:
                text = 'impl %s {\n%s\n}' % (kv['impl'], text)
            lines_span = (src.line_of(loc['sig_start']), src.line_of(loc['end']))
            item = (kv.get('impl') + '::' if kv.get('impl') else '') + name
        elif kind in ('struct', 'enum', 'const', 'static', 'type'):
            name = pos[0]
            text, (a, s, e) = src.item_text(kind, name, with_attrs=True)
            raw = text
            if kind in ('struct', 'enum') and 'keep' not in pos:
                text = u.rules.r9(text, derive=kv.get('derive'))
            else:
                text = src.text[s:e]
                raw = text
            text = u.rules.apply(text, [r for r in rules if r in ('r8_static',)])
            if 'pub' in pos and not re.match(r'\s*pub\b', text):
                text = 'pub ' + text
            for (pa, rp) in pending_subs:
                text, n = re.subn(pa, rp, text)
                if n == 0:
                    raise ExtractError('sub %r did not apply to %s' % (pa, name))
                u.rules.bump('RS', n)
            lines_span = (src.line_of(s), src.line_of(e))
            item = kind + ' ' + name
        elif kind == 'closure':
            cont, field = pos[0].split('.')
            ckind = pos[1]
            attrs = src.deku_field_attr(cont, field, kind=kv.get('kind2', 'struct'))
            if ckind not in attrs:
                raise ExtractError('%s: %s.%s has no %s attribute' % (rel, cont, field, ckind))
            code = attrs[ckind]
            raw = code
            sig = kv['sig']
            if ckind == 'map':
                params, body = closure_body(code)
                pname = params.split(':')[0].strip()
                first = sig.strip().lstrip('(').split(':')[0].strip()
                if pname != first:
                    raise ExtractError('%s.%s map: closure parameter %r but sig starts with %r' % (cont, field, pname, first))
                if ':' in params:
                    # the closure's own parameter type is part of the code under contract (arithmetic width!)
                    real_ty = params.split(':', 1)[1].strip()
                    sig, nrep = re.subn(r'^(\s*\(\s*%s\s*:\s*)[^,)]+' % re.escape(pname), lambda m_: m_.group(1) + real_ty, sig, count=1)
                    kv['sig'] = sig
            elif ckind in ('default', 'cond', 'assert'):
                body = '{ ' + code.strip() + ' }'
                if 'okwrap' in pos:
                    # the derive evaluates the expression inside a fn returning Result (so `?` propagates)
                    body = '{ Ok(' + code.strip() + ') }'
            elif ckind == 'reader':
                # R5: the call expression of a `reader = "..."` attribute; `deku::reader` is the derive's reader binding
                body = '{ ' + code.strip().replace('deku::reader', 'reader') + ' }'
            else:
                raise ExtractError('closure kind %s unsupported' % ckind)
            u.rules.bump('R5')
            text = 'pub fn %s%s %s' % (kv['name'], sig, body)
            text = u.rules.apply(text, [r for r in rules if r in ('r3', 'r4', 'r2', 'r4f')])
            for (pa, rp) in pending_subs:
                text, n = re.subn(pa, rp, text)
                if n == 0:
                    raise ExtractError('sub %r did not apply to %s' % (pa, pos[0]))
                u.rules.bump('RS', n)
            lines_span = (attrs['_line'], attrs['_line'] + code.count('\n'))
            item = '%s.%s %s' % (cont, field, ckind)
            u.opts.setdefault('closure_bits', {})[kv['name']] = attrs.get('bits')
        elif kind == 'block':
            fname = kv['fn']
            ftext, loc = src.fn_text(fname, impl=kv.get('impl'), trait=kv.get('trait'))
            fm = mask_source(ftext)
            ms = list(re.finditer(kv['anchor'], fm))
            if len(ms) != 1:
                raise ExtractError('block anchor %r in %s: %d matches' % (kv['anchor'], fname, len(ms)))
            o = fm.index('{', ms[0].start())
            c = match_close(fm, o)
            raw = ftext[ms[0].start():c + 1]
            text = u.rules.apply(raw, rules)
            for (pa, rp) in pending_subs:
                text, n = re.subn(pa, rp, text, flags=re.S)
                if n == 0:
                    raise ExtractError('sub %r did not apply to block of %s' % (pa, fname))
                u.rules.bump('RS', n)
            text = kv['header'] + ' {\n' + text + '\n' + kv.get('footer', '') + '}'
            base = loc['sig_start'] + ms[0].start()
            lines_span = (src.line_of(base), src.line_of(loc['sig_start'] + c))
            item = 'block in ' + fname
        else:
            raise ExtractError('unknown extract kind %s' % kind)
        for (pa, rp) in global_subs:
            text, n = re.subn(pa, rp, text)
            u.rules.bump('RS', n)
        pending_subs = []
        applied = {k: v - before.get(k, 0) for k, v in u.rules.counts.items() if v - before.get(k, 0)}
        u.extracted.append(dict(file=rel, item=item, lines=list(lines_span), sha256_16=sha(raw), rules=applied))
        out.append('// ---- extracted from %s:%d-%d (%s) rules=%s' % (rel, lines_span[0], lines_span[1], item, applied))
        out.append(text)
        out.append('// ---- end of extract')
    u.text = '\n'.join(out)
    # harness inventory
    for m in re.finditer(r'#\[kani::proof(?:_for_contract\([^)]*\))?\]\s*(?:#\[[^\]]*\]\s*)*(?:pub\s+)?fn\s+(\w+)', u.text):
        u.harnesses.append(m.group(1))
    os.makedirs(out_dir, exist_ok=True)
    return u


if __name__ == '__main__':
    u = process(sys.argv[1], sys.argv[2] if len(sys.argv) > 2 else '/tmp/gen_out')
    sys.stdout.write(u.text)
