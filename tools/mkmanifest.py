#!/usr/bin/env python3
"""Regenerates MANIFEST.json from specs/properties.json (claimed checks) and specs/not_applicable.json."""
import json, os, subprocess
ROOT = os.path.dirname(os.path.dirname(os.path.abspath(__file__)))
props = json.load(open(os.path.join(ROOT, 'specs', 'properties.json')))
na = json.load(open(os.path.join(ROOT, 'specs', 'not_applicable.json')))
ids = [json.loads(l)['id'] for l in open(os.path.join(ROOT, 'properties.jsonl'))]
hooks = []
try:
    out = subprocess.run(['git', '-C', '/repo', 'log', '--format=%h %s'], capture_output=True, text=True).stdout
    hooks = [l.split()[0] for l in out.splitlines() if l.split(' ', 1)[1].startswith('verif-hook:')]
except Exception:
    pass
checks = []
for pid in ids:
    if pid not in props:
        continue
    P = props[pid]
    m = P.get('manifest', {})
    c = dict(property_id=pid,
             quick_cmd='./check %s --tier quick' % pid,
             thorough_cmd='./check %s --tier thorough' % pid,
             evidence_file='/verif/evidence/%s.json' % pid,
             replay_cmd_template='./check %s --replay {path}' % pid,
             engine='contracts',
             level_claimed=dict(category=P.get('level', 'proof'), text=m.get('text', ''), design_ref=m.get('design_ref', 'DESIGN.md section 5, ' + pid)),
             level_note=m.get('note', ''),
             technique=m.get('technique', 'contract-based deductive verification (Verus / Kani function contracts) of mechanically extracted real code'))
    checks.append(c)
man = dict(
    version=1,
    setup_cmd='./setup.sh',
    hooks=dict(guard='xoolive_rs1090_verif',
               enable='RUSTFLAGS="--cfg xoolive_rs1090_verif" (native replays and cargo-kani units; cfg(kani) is additionally set by the Kani compiler)',
               baseline_off_cmd='cd /repo && cargo test --workspace --no-fail-fast --offline',
               source_commits=hooks, add_only=True),
    engines=[dict(name='contracts', path='/verif/check', serves_properties=[c['property_id'] for c in checks],
                  kind_free_text='python driver: mechanical extractor (tools/extract.py, tools/gen.py) + Verus 0.2026.09.13 (z3) + Kani 0.68 / CBMC 6.11 contract harnesses; specs in /verif/specs/*.tpl')],
    checks=checks,
    not_applicable=[dict(property_id=pid, reason=na.get(pid, 'not yet under contract in this revision of /verif')) for pid in ids if pid not in props],
    notes='exit 2 + TOOL-LIMIT line = undecided (never an alarm). Known findings: /verif/known_findings.txt. See DESIGN.md.')
json.dump(man, open(os.path.join(ROOT, 'MANIFEST.json'), 'w'), indent=1)
print('MANIFEST.json: %d checks, %d not_applicable' % (len(checks), len(man['not_applicable'])))
