#!/bin/sh
# usage: mkwt.sh <ID>   -> scratch worktree /tmp/wt_<ID> of /repo HEAD with a warm target dir
set -e
id="$1"
d=/tmp/wt_$id
git -C /repo worktree add --detach "$d" HEAD >/dev/null 2>&1
mkdir -p "$d/out"
if [ -d /repo/target ]; then cp -r /repo/target "$d/target"; fi
echo "$d"
