#!/bin/sh
# re-run every claimed quick check on the current /repo tree (evidence is rewritten), then validate
cd "$(dirname "$0")/.."
git -C /repo status --porcelain --untracked-files=no | grep -q . && { echo "/repo has uncommitted changes"; exit 1; }
ids="${*:-$(python3 -c "import json;print(' '.join(c['property_id'] for c in json.load(open('MANIFEST.json'))['checks']))")}"
for p in $ids; do
  ./check $p --tier quick | tail -1
  echo "exit=$? $p"
done
python3-vt tools/validate.py | tail -1
