#!/usr/bin/env python3
"""Seeded-change bookkeeping.

  seed.py confirm <worktree> <mdir> <SEED-ID> <PROP> [--dest REL] [--cmd "cargo test ..."] [--needs "..."]
      independently re-confirms a sub-agent's change in its scratch worktree:
      demo passes on the clean tree, fails with the patch, the unedited suite passes with the
      patch; then stores it as /verif/seeded/<SEED-ID>/{patch.diff,demo.rs,README.md,meta.json}
  seed.py run <SEED-ID> [--tier quick] [--props C01,C02]
      applies the patch to /repo, runs ./check for the property (or the given ones), restores
      /repo, and records the outcome in meta.json
  seed.py table      prints the detection table (markdown)
"""
import argparse
import json
import os
import re
import shutil
import subprocess
import sys
import time

ROOT = os.path.dirname(os.path.dirname(os.path.abspath(__file__)))
SEEDED = os.path.join(ROOT, 'seeded')


def sh(cmd, cwd, env=None, timeout=3600):
    e = dict(os.environ)
    e.update({'CARGO_NET_OFFLINE': 'true'})
    if env:
        e.update(env)
    p = subprocess.run(cmd, cwd=cwd, shell=True, env=e, stdout=subprocess.PIPE, stderr=subprocess.STDOUT, text=True, timeout=timeout)
    return p.returncode, p.stdout


def confirm(a):
    wt, mdir = a.worktree, a.mdir
    env = {'CARGO_TARGET_DIR': os.path.join(wt, 'target')}
    rc, out = sh('git status --porcelain --untracked-files=no', wt)
    if out.strip():
        sys.exit('worktree not clean:\n' + out)
    demo = os.path.join(mdir, a.demo)
    dest = os.path.join(wt, a.dest)
    name = os.path.splitext(os.path.basename(a.dest))[0]
    cmd = a.cmd or ('cargo test -p rs1090 --test %s --offline' % name)
    log = {}

    appends = [x.split('::', 1) for x in (a.append or [])]

    def put():
        os.makedirs(os.path.dirname(dest), exist_ok=True)
        shutil.copy(demo, dest)
        for f, line in appends:
            with open(os.path.join(wt, f), 'a') as fh:
                fh.write('\n' + line + '\n')

    def rm():
        if os.path.exists(dest):
            os.remove(dest)
        for f, line in appends:
            fp = os.path.join(wt, f)
            t = open(fp).read()
            suf = '\n' + line + '\n'
            if t.endswith(suf):
                open(fp, 'w').write(t[:-len(suf)])
        d = os.path.dirname(dest)
        if os.path.basename(d) == 'tests' and os.path.isdir(d) and not os.listdir(d):
            os.rmdir(d)
    try:
        put()
        rc0, o0 = sh(cmd, wt, env)
        log['demo_clean_rc'] = rc0
        rm()
        rc, o = sh('git apply %s' % os.path.join(mdir, 'patch.diff'), wt)
        if rc != 0:
            sys.exit('patch does not apply: ' + o)
        rcs, os_ = sh('cargo test --workspace --no-fail-fast --offline', wt, env)
        log['suite_patched_rc'] = rcs
        log['suite_patched_summary'] = re.findall(r'test result: .*', os_)
        put()
        rc1, o1 = sh(cmd, wt, env)
        log['demo_patched_rc'] = rc1
        log['demo_patched_tail'] = o1[-1200:]
    finally:
        rm()
        sh('git checkout -- .', wt)
    ok = (log.get('demo_clean_rc') == 0 and log.get('demo_patched_rc') not in (0, None) and log.get('suite_patched_rc') == 0)
    print(json.dumps({k: v for k, v in log.items() if k != 'demo_patched_tail'}, indent=1))
    if not ok:
        print(log.get('demo_patched_tail', ''))
        print(o0[-1500:] if log.get('demo_clean_rc') else '')
        sys.exit('NOT CONFIRMED')
    d = os.path.join(SEEDED, a.seed_id)
    os.makedirs(d, exist_ok=True)
    shutil.copy(os.path.join(mdir, 'patch.diff'), os.path.join(d, 'patch.diff'))
    shutil.copy(demo, os.path.join(d, os.path.basename(a.demo)))
    if os.path.exists(os.path.join(mdir, 'README.md')):
        shutil.copy(os.path.join(mdir, 'README.md'), os.path.join(d, 'README.md'))
    meta = dict(id=a.seed_id, property=a.prop, needs_to_manifest=a.needs or '', demo=dict(file=os.path.basename(a.demo), place_at=a.dest, cmd=cmd, append=a.append or []),
                confirmed=dict(demo_passes_on_clean_tree=True, demo_fails_with_patch=True, existing_suite_passes_with_patch=True,
                               suite_summary=log['suite_patched_summary'], how='tools/seed.py confirm in a scratch worktree of /repo HEAD'),
                files=re.findall(r'^\+\+\+ b/(.*)$', open(os.path.join(mdir, 'patch.diff')).read(), flags=re.M),
                runs=[])
    json.dump(meta, open(os.path.join(d, 'meta.json'), 'w'), indent=1)
    print('CONFIRMED -> %s' % d)


def run(a):
    d = os.path.join(SEEDED, a.seed_id)
    meta = json.load(open(os.path.join(d, 'meta.json')))
    props = a.props.split(',') if a.props else [meta['property']]
    rc, out = sh('git status --porcelain --untracked-files=no', '/repo')
    if out.strip():
        sys.exit('/repo not clean:\n' + out)
    rc, o = sh('git apply %s' % os.path.join(d, 'patch.diff'), '/repo')
    if rc != 0:
        sys.exit('patch does not apply to /repo: ' + o)
    try:
        for p in props:
            t0 = time.time()
            extra = (' --unit %s' % a.unit) if a.unit else ''
            rc, o = sh('./check %s --tier %s%s' % (p, a.tier, extra), ROOT, timeout=7200)
            vio = re.findall(r'^VIOLATION .*$', o, flags=re.M)
            failed = re.findall(r'^\s+refuted\s+(\S+)', o, flags=re.M)
            res = dict(property=p, tier=a.tier, exit=rc, violation_lines=vio, refuted=failed, wall_s=round(time.time() - t0, 1),
                       detected=(rc == 1 and bool(vio)), tail=o[-600:] if rc != 1 else '')
            meta['runs'] = [r for r in meta['runs'] if not (r['property'] == p and r['tier'] == a.tier)] + [res]
            print('%s %s tier=%s exit=%d detected=%s %s' % (a.seed_id, p, a.tier, rc, res['detected'], ' '.join(failed)))
            if rc not in (0, 1):
                print(o[-800:])
    finally:
        sh('git checkout -- .', '/repo')
        if not a.unit:
            json.dump(meta, open(os.path.join(d, 'meta.json'), 'w'), indent=1)


def table(a):
    rows = []
    for sid in sorted(os.listdir(SEEDED)):
        mp = os.path.join(SEEDED, sid, 'meta.json')
        if not os.path.exists(mp):
            continue
        m = json.load(open(mp))
        det = ['%s(%s)' % (r['property'], r['tier']) for r in m['runs'] if r['detected']]
        miss = ['%s(%s)' % (r['property'], r['tier']) for r in m['runs'] if not r['detected']]
        obl = sorted({x for r in m['runs'] if r['detected'] for x in r['refuted']})
        rows.append('| %s | %s | %s | %s | %s | %s |' % (sid, m['property'], ', '.join(m['files']), m['needs_to_manifest'][:110], ', '.join(det) or '-', (', '.join(obl)[:160]) if det else ('MISSED: ' + ', '.join(miss) if miss else 'not run')))
    print('| seed | property | file | needs | detected by | failing obligations |\n|---|---|---|---|---|---|')
    print('\n'.join(rows))


if __name__ == '__main__':
    ap = argparse.ArgumentParser()
    sub = ap.add_subparsers(dest='cmd_')
    c = sub.add_parser('confirm')
    c.add_argument('worktree'); c.add_argument('mdir'); c.add_argument('seed_id'); c.add_argument('prop')
    c.add_argument('--demo', default='demo.rs'); c.add_argument('--dest', default=None); c.add_argument('--cmd', default=None); c.add_argument('--needs', default=''); c.add_argument('--append', action='append')
    r = sub.add_parser('run')
    r.add_argument('seed_id'); r.add_argument('--tier', default='quick'); r.add_argument('--props', default=None); r.add_argument('--unit', default=None)
    sub.add_parser('table')
    a = ap.parse_args()
    if a.cmd_ == 'confirm':
        if a.dest is None:
            a.dest = 'crates/rs1090/tests/seed_%s.rs' % a.seed_id.lower().replace('-', '_')
        confirm(a)
    elif a.cmd_ == 'run':
        run(a)
    else:
        table(a)
