#!/usr/bin/env python3
"""Derives, mechanically from the serde attributes of the real type definitions, which value the
JSON of a decoded message shows under the keys `df` and `icao24` (the definition of "displayed"
in C11 / C12):  enum DF is `#[serde(tag = "df")]`, each variant's label is its `rename`; the
address is the (non-skipped) field serialised under the key `icao24` — directly, through a
`#[serde(flatten)]` field, or through the newtype variant's content struct.

emit_oracle() returns Rust source:
    pub fn shown_df(df: &DF) -> Option<&'static str>
    pub fn shown_icao24(df: &DF) -> Option<u32>
"""
import re
from extract import Source, ExtractError, mask_source, match_close, split_top


def _attrs_and_rest(text):
    """split leading attributes / doc comments from an item piece -> (list of attr strings, rest)"""
    attrs = []
    i = 0
    while True:
        m = re.match(r'\s*(///[^\n]*\n|//[^\n]*\n|/\*.*?\*/)', text[i:], flags=re.S)
        if m:
            i += m.end()
            continue
        m = re.match(r'\s*#\[', text[i:])
        if not m:
            break
        o = i + m.end() - 1
        c = match_close(mask_source(text), o)
        attrs.append(text[o + 1:c])
        i = c + 1
    return attrs, text[i:].strip()


def _serde(attrs):
    d = {}
    for a in attrs:
        m = re.match(r'\s*serde\s*\((.*)\)\s*$', a, flags=re.S)
        if not m:
            continue
        inner = m.group(1)
        im = mask_source(inner)
        for (pa, pb) in split_top(im, 0, len(im), ','):
            piece = inner[pa:pb].strip()
            if '=' in piece:
                k, v = piece.split('=', 1)
                d[k.strip()] = v.strip().strip('"')
            elif piece:
                d[piece] = True
    return d


def _fields(body):
    """body of a struct / struct-variant (without braces) -> list of (name, type, serde dict)"""
    bm = mask_source(body)
    out = []
    for (pa, pb) in split_top(bm, 0, len(bm), ','):
        piece = body[pa:pb]
        if not piece.strip():
            continue
        attrs, rest = _attrs_and_rest(piece)
        m = re.match(r'(?:pub(?:\([^)]*\))?\s+)?(\w+)\s*:\s*(.*)$', rest, flags=re.S)
        if not m:
            raise ExtractError('shown: cannot parse field %r' % rest[:60])
        out.append((m.group(1), m.group(2).strip(), _serde(attrs)))
    return out


def _struct_fields(src, name):
    text, (a, s, e) = src.item_text('struct', name)
    body_text = src.text[s:e]
    o = body_text.index('{')
    c = match_close(mask_source(body_text), o)
    return _fields(body_text[o + 1:c])


def _icao_path(fields, lookup):
    """path (list of field names) to the value serialised under key icao24, or None"""
    for (n, ty, sd) in fields:
        if sd.get('skip') or sd.get('skip_serializing'):
            continue
        key = sd.get('rename', n)
        if key == 'icao24' and not sd.get('flatten'):
            return [n], ty
    for (n, ty, sd) in fields:
        if sd.get('flatten') and not sd.get('skip'):
            try:
                sub = lookup(ty)
            except ExtractError:
                continue
            r = _icao_path(sub, lookup)
            if r:
                return [n] + r[0], r[1]
    return None


def emit_oracle(repo_src_mod, repo_src_adsb):
    mod = Source(repo_src_mod)
    adsb = Source(repo_src_adsb)

    def lookup(ty):
        ty = ty.split('::')[-1].strip()
        for s in (mod, adsb):
            try:
                return _struct_fields(s, ty)
            except ExtractError:
                continue
        raise ExtractError('shown: struct %s not found' % ty)

    text, (a, s, e) = mod.item_text('enum', 'DF')
    et = mod.text[s:e]
    hdr_attrs, _ = _attrs_and_rest(mod.text[a:e])
    if _serde(hdr_attrs).get('tag') != 'df':
        raise ExtractError('shown: enum DF is no longer #[serde(tag = "df")]')
    o = et.index('{')
    c = match_close(mask_source(et), o)
    body = et[o + 1:c]
    bm = mask_source(body)
    df_arms, icao_arms = [], []
    for (pa, pb) in split_top(bm, 0, len(bm), ','):
        piece = body[pa:pb]
        if not piece.strip():
            continue
        attrs, rest = _attrs_and_rest(piece)
        sd = _serde(attrs)
        m = re.match(r'(\w+)\s*(.*)$', rest, flags=re.S)
        vname, tail = m.group(1), m.group(2).strip()
        label = sd.get('rename', vname)
        df_arms.append('        DF::%s { .. } => Some("%s"),' % (vname, label))
        if tail.startswith('{'):
            fields = _fields(tail[1:match_close(mask_source(tail), 0)])
            r = _icao_path(fields, lookup)
            if r:
                path, ty = r
                icao_arms.append('        DF::%s { %s, .. } => Some(%s.0),' % (vname, path[0], '.'.join(path)))
            else:
                icao_arms.append('        DF::%s { .. } => None,' % vname)
        elif tail.startswith('('):
            inner = tail[1:match_close(mask_source(tail), 0)].strip()
            r = _icao_path(lookup(inner), lookup)
            if r:
                icao_arms.append('        DF::%s(x) => Some(x.%s.0),' % (vname, '.'.join(r[0])))
            else:
                icao_arms.append('        DF::%s(..) => None,' % vname)
        else:
            icao_arms.append('        DF::%s => None,' % vname)
    out = ['// GENERATED at check time by tools/shown.py from the serde attributes of enum DF, struct ADSB, struct ControlField',
           '#[allow(unreachable_patterns)]',
           'pub fn shown_df(df: &DF) -> Option<&\'static str> {', '    match df {'] + [x.replace('{ .. }', '{ .. }') for x in df_arms] + ['    }', '}',
           'pub fn shown_icao24(df: &DF) -> Option<u32> {', '    match df {'] + icao_arms + ['    }', '}']
    # tuple variants need `(..)` patterns in shown_df
    txt = '\n'.join(out)
    for arm in icao_arms:
        m = re.match(r'\s*DF::(\w+)\((?:x|\.\.)\)', arm)
        if m:
            txt = txt.replace('DF::%s { .. } => Some(' % m.group(1), 'DF::%s(..) => Some(' % m.group(1))
    return txt


if __name__ == '__main__':
    import sys
    print(emit_oracle('/repo/crates/rs1090/src/decode/mod.rs', '/repo/crates/rs1090/src/decode/adsb.rs'))
