#!/bin/sh
# validation helper: runs every registered thorough command once (sequentially) and prints the exit codes
cd "$(dirname "$0")/.."
for p in ${*:-C15 C14 C11 C07 C05 C04}; do
  ./check $p --tier thorough > thorough_$p.log 2>&1
  echo "exit=$? $p $(tail -1 thorough_$p.log | cut -c1-160)"
done
